/-
  C05 — numbers are exact decimals: for numbers given as JSON text, literals or decimal values, the arithmetic
  operators, `sum`, `avg`, `abs`, `ceil`, `floor`, `to_number` and numeric comparison compute the mathematically
  exact decimal result whenever it fits the format (coefficient ≤ MAXSIG ≥ 10^34, i.e. at least every result of
  at most 34 significant digits), and a correctly rounded one otherwise; no value is routed through binary floating
  point; division by zero and overflow are `not-a-number` errors, never an Inf/NaN value.

  A finite decimal `fin n c e` denotes `(-1)^n · c · 10^e`.  "Exact" statements spell the exact result out as an
  integer coefficient at an explicit exponent and say that the library returns `normalize` of it; `normalize` keeps the
  value (`normalize_same_value`).
-/
import Jmes.Proofs.DecExact
import Jmes.Proofs.NoFloat
namespace Jmes.C05
open Jmes.Dec

/-! ## 1. `normalize` keeps the value and returns the canonical representative -/

/-- `normalize` denotes the same value and has no trailing zero in its coefficient (zero: exponent 0) -/
theorem normalize_same_value (n : Bool) (c : Nat) (e : Int) :
    SameValue (normalize (.fin n c e)) (.fin n c e) ∧ Canonical (normalize (.fin n c e)) ∧
      ∃ c' e', normalize (.fin n c e) = .fin n c' e' := by
  by_cases hc : c = 0
  · subst hc
    rw [normalize_zero]
    exact ⟨by simp [SameValue], by simp [Canonical], _, _, rfl⟩
  · obtain ⟨c', k, h1, h2, h3⟩ := normalize_spec n c e hc
    rw [h1]
    refine ⟨?_, Or.inr h3, _, _, rfl⟩
    simp only [SameValue]
    have hm : min (e + (k : Int)) e = e := by omega
    rw [hm]
    have : (e + (k : Int) - e).toNat = k := by omega
    rw [this, ← h2]
    simp

example : normalize (.fin true 2500 (-3)) = .fin true 25 (-1) := by decide
example : SameValue (.fin true 2500 (-3)) (.fin true 25 (-1)) := by simp only [SameValue]; decide

/-- `normalize` of anything is the canonical `c'·10^(e+k)` with `c = c'·10^k`, `10 ∤ c'` -/
theorem normalize_canonical (n : Bool) (c c' k : Nat) (e : Int) (h0 : c' % 10 ≠ 0) (h : c = c' * 10 ^ k) :
    normalize (.fin n c e) = .fin n c' (e + k) := normalize_of n c c' k e h0 h

/-! ## 2. `reduce` returns a value that fits exactly -/

/-- a value that fits the format (`c ≤ MAXSIG`, exponent in range, nothing below it) is returned exactly -/
theorem reduce_exact (neg : Bool) (c : Nat) (e : Int) (hc : c ≤ MAXSIG) (hlo : EMIN ≤ e) (hhi : e ≤ EMAX) :
    reduce neg c e false = normalize (.fin neg c e) := Dec.reduce_exact neg c e hc hlo hhi

/-- in particular every coefficient of at most 34 significant digits -/
theorem reduce_exact_34 (neg : Bool) (c : Nat) (e : Int) (hc : c < 10 ^ 34) (hlo : EMIN ≤ e) (hhi : e ≤ EMAX) :
    reduce neg c e false = normalize (.fin neg c e) := Dec.reduce_exact_34 neg c e hc hlo hhi

/-- also when the coefficient is too long only because of trailing zeros -/
theorem reduce_exact_zeros (neg : Bool) (c j : Nat) (e : Int) (hc0 : c ≠ 0) (hc : c ≤ MAXSIG)
    (hlo : EMIN ≤ e + j) (hhi : e + j ≤ EMAX) :
    reduce neg (c * 10 ^ j) e false = normalize (.fin neg c (e + j)) := reduce_zeros neg c j e hc0 hc hlo hhi

example : reduce false 12300 (-2) = .fin false 123 0 := by decide
example : reduce false (7 * 10 ^ 50) (-50) = .fin false 7 0 := by decide

/-! ## 3. `+`, `-`, `*` -/

/-- the exact sum: the aligned signed coefficients added at the exponent `min e1 e2` -/
theorem add_exact (n1 n2 : Bool) (c1 c2 : Nat) (e1 e2 : Int) (h1 : c1 ≠ 0) (h2 : c2 ≠ 0) (s : Int)
    (hs : s = sval n1 c1 e1 (min e1 e2) + sval n2 c2 e2 (min e1 e2))
    (hfit : s.natAbs ≤ MAXSIG) (hlo : EMIN ≤ min e1 e2) (hhi : min e1 e2 ≤ EMAX) :
    Dec.add (.fin n1 c1 e1) (.fin n2 c2 e2) = normalize (.fin (decide (s < 0)) s.natAbs (min e1 e2)) := by
  show addFin n1 c1 e1 n2 c2 e2 = _
  unfold addFin
  simp only [h1, h2, if_false]
  unfold sval at hs
  rw [← hs]
  by_cases h0 : s = 0
  · simp [h0, normalize_zero]
  · simp only [h0, if_false]
    exact Dec.reduce_exact _ _ _ hfit hlo hhi

/-- adding a zero is exact whatever the other operand -/
theorem add_zero_left (n1 n2 : Bool) (c2 : Nat) (e1 e2 : Int) (h2 : c2 ≠ 0) :
    Dec.add (.fin n1 0 e1) (.fin n2 c2 e2) = normalize (.fin n2 c2 e2) := by
  show addFin n1 0 e1 n2 c2 e2 = _
  simp [addFin, h2]

theorem add_zero_right (n1 n2 : Bool) (c1 : Nat) (e1 e2 : Int) (h1 : c1 ≠ 0) :
    Dec.add (.fin n1 c1 e1) (.fin n2 0 e2) = normalize (.fin n1 c1 e1) := by
  show addFin n1 c1 e1 n2 0 e2 = _
  simp [addFin, h1]

theorem add_zero_zero (n1 n2 : Bool) (e1 e2 : Int) :
    Dec.add (.fin n1 0 e1) (.fin n2 0 e2) = .fin (n1 && n2) 0 0 := by
  show addFin n1 0 e1 n2 0 e2 = _
  simp [addFin]

-- 0.1 + 0.2 = 0.3
example : Dec.add (.fin false 1 (-1)) (.fin false 2 (-1)) = .fin false 3 (-1) := by decide
example : Dec.add (.fin false 1 (-1)) (.fin false 2 (-1)) = normalize (.fin false 3 (-1)) :=
  add_exact false false 1 2 (-1) (-1) (by decide) (by decide) 3 (by decide) (by decide) (by decide) (by decide)
-- 1e20 + 1e-10 has 31 digits: exact
example : Dec.add (.fin false 1 20) (.fin false 1 (-10)) = .fin false 1000000000000000000000000000001 (-10) := by decide

/-- the exact difference -/
theorem sub_exact (n1 n2 : Bool) (c1 c2 : Nat) (e1 e2 : Int) (h1 : c1 ≠ 0) (h2 : c2 ≠ 0) (s : Int)
    (hs : s = sval n1 c1 e1 (min e1 e2) - sval n2 c2 e2 (min e1 e2))
    (hfit : s.natAbs ≤ MAXSIG) (hlo : EMIN ≤ min e1 e2) (hhi : min e1 e2 ≤ EMAX) :
    Dec.sub (.fin n1 c1 e1) (.fin n2 c2 e2) = normalize (.fin (decide (s < 0)) s.natAbs (min e1 e2)) := by
  have : Dec.sub (.fin n1 c1 e1) (.fin n2 c2 e2) = Dec.add (.fin n1 c1 e1) (.fin (!n2) c2 e2) := by
    simp [Dec.sub, Dec.add, h1]
  rw [this]
  exact add_exact n1 (!n2) c1 c2 e1 e2 h1 h2 s (by rw [hs, sval_neg]; omega) hfit hlo hhi

theorem sub_zero_right (n1 n2 : Bool) (c1 : Nat) (e1 e2 : Int) (h1 : c1 ≠ 0) :
    Dec.sub (.fin n1 c1 e1) (.fin n2 0 e2) = normalize (.fin n1 c1 e1) := by
  simp [Dec.sub, addFin, h1]

theorem sub_zero_left (n1 n2 : Bool) (c2 : Nat) (e1 e2 : Int) (h2 : c2 ≠ 0) :
    Dec.sub (.fin n1 0 e1) (.fin n2 c2 e2) = normalize (.fin (!n2) c2 e2) := by
  simp [Dec.sub, addFin, h2]

example : Dec.sub (.fin false 3 (-1)) (.fin false 1 (-1)) = .fin false 2 (-1) := by decide
example : Dec.sub (.fin false 1 0) (.fin false 11 (-1)) = .fin true 1 (-1) := by decide

/-- the exact product -/
theorem mul_exact (n1 n2 : Bool) (c1 c2 : Nat) (e1 e2 : Int) (h1 : c1 ≠ 0) (h2 : c2 ≠ 0)
    (hfit : c1 * c2 ≤ MAXSIG) (hlo : EMIN ≤ e1 + e2) (hhi : e1 + e2 ≤ EMAX) :
    Dec.mul (.fin n1 c1 e1) (.fin n2 c2 e2) = normalize (.fin (n1 != n2) (c1 * c2) (e1 + e2)) := by
  simp only [Dec.mul, h1, h2, or_self, if_false]
  exact Dec.reduce_exact _ _ _ hfit hlo hhi

theorem mul_zero (n1 n2 : Bool) (c1 c2 : Nat) (e1 e2 : Int) (h : c1 = 0 ∨ c2 = 0) :
    Dec.mul (.fin n1 c1 e1) (.fin n2 c2 e2) = .fin (n1 != n2) 0 0 := by
  simp [Dec.mul, h]

example : Dec.mul (.fin false 11 (-1)) (.fin true 11 (-1)) = .fin true 121 (-2) := by decide
example : Dec.mul (.fin false 25 (-1)) (.fin false 4 0) = .fin false 1 1 := by decide

/-! ## 3b. `sum` (and `avg`) -/

/-- `sum` is the left fold of `Dec.add` from `+0` (`sum_is_decimal_fold` below); it is exact: for an array of finite
    decimals `(-1)^n·c·10^e` with exponents in `[m, EMAX]`, `m ≥ EMIN`, whose magnitudes add up (in units of `10^m`) to at
    most `MAXSIG` — in particular to at most 34 digits — `sum` returns the exact sum `exactSum m ts · 10^m`
    (`Rep m r P`: `r` is a zero if `P = 0`, else `r = normalize ((-1)^(P<0) · |P| · 10^m)`).  `avg` divides that exact
    sum by the length with `Dec.quo` (`avg_is_decimal_fold`), to which `quo_exact` / `quo_close` apply. -/
theorem sum_exact (m : Int) (hm : EMIN ≤ m) (t : ATag) (xs : List Val) (ts : List (Bool × Nat × Int))
    (hx : xs.map toDecimal = ts.map (fun t => some (Dec.fin t.1 t.2.1 t.2.2)))
    (he : ∀ t ∈ ts, m ≤ t.2.2 ∧ t.2.2 ≤ EMAX) (hfit : magSum m ts ≤ MAXSIG) (hok : enumSumOk t xs = true) :
    ∃ r, numSum (.arr t xs) = .ok (.num (.dec r)) ∧ Rep m r (exactSum m ts) :=
  numSum_exact m hm t xs ts hx he hfit hok

-- sum([0.1, 0.2, 0.3]) = 0.6 exactly
example : ∃ r, numSum (.arr .plain [.num (.dec (.fin false 1 (-1))), .num (.dec (.fin false 2 (-1))),
      .num (.dec (.fin false 3 (-1)))]) = .ok (.num (.dec r)) ∧
    Rep (-1) r (exactSum (-1) [(false, 1, -1), (false, 2, -1), (false, 3, -1)]) :=
  sum_exact (-1) (by decide) .plain _ [(false, 1, -1), (false, 2, -1), (false, 3, -1)] rfl (by decide) (by decide) rfl
example : exactSum (-1) [(false, 1, -1), (false, 2, -1), (false, 3, -1)] = 6 := by decide
example : sumDec [.num (.dec (.fin false 1 (-1))), .num (.dec (.fin false 2 (-1))), .num (.dec (.fin false 3 (-1)))]
    Dec.zero = some (.fin false 6 (-1)) := by decide

/-! ## 4. `/` (and `//`, `%`) -/

/-- general form: the scaled dividend `c1·10^k` (`k = 40 + ndigits c2`, the scaling `quoFin` uses) is divisible by
    `c2`, and the integer quotient is `q0·10^j` with `q0 ≤ MAXSIG` and an exponent in range: the quotient is exact -/
theorem quo_exact (n1 n2 : Bool) (c1 c2 : Nat) (e1 e2 : Int) (h1 : c1 ≠ 0) (h2 : c2 ≠ 0) (q0 j : Nat)
    (hq : c1 * 10 ^ (40 + ndigits c2) = q0 * 10 ^ j * c2) (hfit : q0 ≤ MAXSIG)
    (hlo : EMIN ≤ e1 - e2 - (40 + ndigits c2 : Nat) + j) (hhi : e1 - e2 - (40 + ndigits c2 : Nat) + j ≤ EMAX) :
    Dec.quo (.fin n1 c1 e1) (.fin n2 c2 e2) =
      normalize (.fin (n1 != n2) q0 (e1 - e2 - (40 + ndigits c2 : Nat) + j)) := by
  have hq0 : q0 ≠ 0 := by
    intro h; subst h
    have : 0 < 10 ^ (40 + ndigits c2) := Nat.pow_pos (by decide)
    simp only [Nat.zero_mul] at hq
    rcases Nat.mul_eq_zero.mp hq with h | h <;> omega
  simp only [Dec.quo, h1, h2, if_false, quoFin, pow10]
  rw [hq, Nat.mul_div_cancel _ (Nat.pos_of_ne_zero h2), Nat.mul_mod_left]
  simp only [bne_self_eq_false]
  exact reduce_zeros _ q0 j _ hq0 hfit hlo hhi

/-- the useful special case: the divisor's coefficient divides the dividend's -/
theorem quo_exact_of_dvd (n1 n2 : Bool) (c2 q : Nat) (e1 e2 : Int) (hq0 : q ≠ 0) (h2 : c2 ≠ 0)
    (hfit : q ≤ MAXSIG) (hlo : EMIN ≤ e1 - e2) (hhi : e1 - e2 ≤ EMAX) :
    Dec.quo (.fin n1 (q * c2) e1) (.fin n2 c2 e2) = normalize (.fin (n1 != n2) q (e1 - e2)) := by
  have h := quo_exact n1 n2 (q * c2) c2 e1 e2 (Nat.mul_ne_zero hq0 h2) h2 q (40 + ndigits c2)
    (by rw [Nat.mul_right_comm]) hfit (by omega) (by omega)
  rw [h]
  have : e1 - e2 - ((40 + ndigits c2 : Nat) : Int) + ((40 + ndigits c2 : Nat) : Int) = e1 - e2 := by omega
  rw [this]

theorem quo_zero_left (n1 n2 : Bool) (c2 : Nat) (e1 e2 : Int) (h2 : c2 ≠ 0) :
    Dec.quo (.fin n1 0 e1) (.fin n2 c2 e2) = .fin (n1 != n2) 0 0 := by
  simp [Dec.quo, h2]

example : Dec.quo (.fin false 1 0) (.fin false 8 0) = .fin false 125 (-3) := by decide
example : Dec.quo (.fin false 1 0) (.fin false 8 0) = normalize (.fin false 125 (-41 + 38)) :=
  quo_exact false false 1 8 0 0 (by decide) (by decide) 125 38 (by decide) (by decide) (by decide) (by decide)
example : Dec.quo (.fin true 84 (-1)) (.fin false 4 0) = normalize (.fin true 21 (-1)) :=
  quo_exact_of_dvd true false 4 21 (-1) 0 (by decide) (by decide) (by decide) (by decide) (by decide)
-- inexact quotients are correctly rounded (round-half-even at 34 digits)
example : Dec.quo (.fin false 1 0) (.fin false 3 0) = .fin false 3333333333333333333333333333333333 (-34) := by decide
example : Dec.quo (.fin false 2 0) (.fin false 3 0) = .fin false 6666666666666666666666666666666667 (-34) := by decide

/-- `//` : the integer quotient of the aligned coefficients, when it fits -/
theorem idiv_exact (n1 n2 : Bool) (c1 c2 : Nat) (e1 e2 : Int) (h1 : c1 ≠ 0) (h2 : c2 ≠ 0)
    (hfit : (c1 * 10 ^ (e1 - min e1 e2).toNat) / (c2 * 10 ^ (e2 - min e1 e2).toNat) ≤ MAXSIG) :
    (Dec.quoRem (.fin n1 c1 e1) (.fin n2 c2 e2)).1 =
      normalize (.fin (n1 != n2) ((c1 * 10 ^ (e1 - min e1 e2).toNat) / (c2 * 10 ^ (e2 - min e1 e2).toNat)) 0) := by
  simp only [Dec.quoRem, h1, h2, if_false, pow10]
  exact Dec.reduce_exact _ _ _ hfit (by decide) (by decide)

/-- `%` : the remainder of the aligned coefficients at the common exponent, with the sign of the dividend -/
theorem mod_exact (n1 n2 : Bool) (c1 c2 : Nat) (e1 e2 : Int) (h1 : c1 ≠ 0) (h2 : c2 ≠ 0)
    (hfit : (c1 * 10 ^ (e1 - min e1 e2).toNat) % (c2 * 10 ^ (e2 - min e1 e2).toNat) ≤ MAXSIG)
    (hlo : EMIN ≤ min e1 e2) (hhi : min e1 e2 ≤ EMAX) :
    (Dec.quoRem (.fin n1 c1 e1) (.fin n2 c2 e2)).2 =
      normalize (.fin n1 ((c1 * 10 ^ (e1 - min e1 e2).toNat) % (c2 * 10 ^ (e2 - min e1 e2).toNat)) (min e1 e2)) := by
  simp only [Dec.quoRem, h1, h2, if_false, pow10]
  exact Dec.reduce_exact _ _ _ hfit hlo hhi

example : Dec.quoRem (.fin false 75 (-1)) (.fin false 2 0) = (.fin false 3 0, .fin false 15 (-1)) := by decide

/-! ## 8. unary minus, `abs`, `ceil`, `floor` -/

/-- negation and absolute value only touch the sign: exact for every operand -/
theorem neg_exact (n : Bool) (c : Nat) (e : Int) : Dec.neg (.fin n c e) = .fin (!n) c e := rfl
theorem abs_exact (n : Bool) (c : Nat) (e : Int) : Dec.abs (.fin n c e) = .fin false c e := rfl
theorem neg_value (n : Bool) (c : Nat) (e m : Int) : sval (!n) c e m = - sval n c e m := sval_neg n c e m

example : Dec.neg (.fin false 15 (-1)) = .fin true 15 (-1) := rfl
example : Dec.abs (.fin true 15 (-1)) = .fin false 15 (-1) := rfl

theorem ceil_int (n : Bool) (c : Nat) (e : Int) (he : 0 ≤ e) : Dec.ceil (.fin n c e) = normalize (.fin n c e) := by
  by_cases hc : c = 0
  · subst hc; simp [Dec.ceil, normalize_zero]
  · simp [Dec.ceil, hc, he]

theorem floor_int (n : Bool) (c : Nat) (e : Int) (he : 0 ≤ e) : Dec.floor (.fin n c e) = normalize (.fin n c e) := by
  by_cases hc : c = 0
  · subst hc; simp [Dec.floor, normalize_zero]
  · simp [Dec.floor, hc, he]

/-- the integer `Dec.ceil` returns for `(-1)^n · c · 10^e`, `e < 0`: with `p = 10^(-e)`, `q = c / p`, `r = c % p` -/
def ceilInt (n : Bool) (c : Nat) (e : Int) : Int :=
  let p := 10 ^ (-e).toNat
  if n then -((c / p : Nat) : Int) else if c % p = 0 then ((c / p : Nat) : Int) else ((c / p + 1 : Nat) : Int)

def floorInt (n : Bool) (c : Nat) (e : Int) : Int :=
  let p := 10 ^ (-e).toNat
  if n then (if c % p = 0 then -((c / p : Nat) : Int) else -((c / p + 1 : Nat) : Int)) else ((c / p : Nat) : Int)

/-- `ceil` returns the integer `ceilInt` (sign kept, so that `ceil(-0.5) = -0`) … -/
theorem ceil_eq (n : Bool) (c : Nat) (e : Int) (he : e < 0) :
    Dec.ceil (.fin n c e) = normalize (.fin n (ceilInt n c e).natAbs 0) := by
  by_cases hc : c = 0
  · subst hc; cases n <;> simp [Dec.ceil, ceilInt, normalize_zero]
  · have : ¬ (0 ≤ e) := by omega
    simp only [Dec.ceil, hc, if_false, ge_iff_le, this, pow10, ceilInt]
    by_cases hr : c % 10 ^ (-e).toNat = 0 <;> cases n <;> simp [hr] <;> rfl

theorem floor_eq (n : Bool) (c : Nat) (e : Int) (he : e < 0) :
    Dec.floor (.fin n c e) = normalize (.fin n (floorInt n c e).natAbs 0) := by
  by_cases hc : c = 0
  · subst hc; cases n <;> simp [Dec.floor, floorInt, normalize_zero]
  · have : ¬ (0 ≤ e) := by omega
    simp only [Dec.floor, hc, if_false, ge_iff_le, this, pow10, floorInt]
    by_cases hr : c % 10 ^ (-e).toNat = 0 <;> cases n <;> simp [hr] <;> rfl

/-- the signed coefficient `(-1)^n · c` -/
def scoef (n : Bool) (c : Nat) : Int := if n then -(c : Int) else c

theorem divmod_cast (c p : Nat) (hp : 0 < p) :
    (c : Int) = ((c / p : Nat) : Int) * (p : Int) + ((c % p : Nat) : Int) ∧
      (0 : Int) ≤ ((c % p : Nat) : Int) ∧ ((c % p : Nat) : Int) < (p : Int) := by
  refine ⟨?_, Int.natCast_nonneg _, by exact_mod_cast Nat.mod_lt c hp⟩
  rw [Int.mul_comm, ← Int.natCast_mul, ← Int.natCast_add, Nat.div_add_mod]

/-- … and `ceilInt` is the least integer `≥` the value `sc / p` (`sc = ±c` the signed coefficient, `p = 10^(-e)`):
    stated without division as `sc ≤ z·p`. -/
theorem ceil_spec (n : Bool) (c : Nat) (e : Int) :
    scoef n c ≤ ceilInt n c e * ((10 ^ (-e).toNat : Nat) : Int) ∧
      ∀ z' : Int, scoef n c ≤ z' * ((10 ^ (-e).toNat : Nat) : Int) → ceilInt n c e ≤ z' := by
  have hp : 0 < 10 ^ (-e).toNat := Nat.pow_pos (by decide)
  simp only [ceilInt, scoef]
  generalize 10 ^ (-e).toNat = p at *
  obtain ⟨hC, hR0, hR⟩ := divmod_cast c p hp
  have hP : (0 : Int) < (p : Int) := by exact_mod_cast hp
  apply least_ge_core _ _ _ hP
  · cases n
    · by_cases hr : c % p = 0
      · simp only [hr, if_true, Bool.false_eq_true, if_false, Int.natCast_zero] at *; omega
      · simp only [hr, if_false, Bool.false_eq_true, Int.natCast_add, Int.natCast_one, Int.add_mul, Int.one_mul]; omega
    · simp only [if_true, Int.neg_mul]; omega
  · cases n
    · by_cases hr : c % p = 0
      · simp only [hr, if_true, Bool.false_eq_true, if_false, Int.natCast_zero, Int.sub_mul, Int.one_mul] at *; omega
      · have : (0 : Int) < ((c % p : Nat) : Int) := by omega
        simp only [hr, if_false, Bool.false_eq_true, Int.natCast_add, Int.natCast_one, Int.add_sub_cancel]; omega
    · simp only [if_true, Int.neg_mul, Int.sub_mul, Int.one_mul]; omega

theorem floor_spec (n : Bool) (c : Nat) (e : Int) :
    floorInt n c e * ((10 ^ (-e).toNat : Nat) : Int) ≤ scoef n c ∧
      ∀ z' : Int, z' * ((10 ^ (-e).toNat : Nat) : Int) ≤ scoef n c → z' ≤ floorInt n c e := by
  have hp : 0 < 10 ^ (-e).toNat := Nat.pow_pos (by decide)
  simp only [floorInt, scoef]
  generalize 10 ^ (-e).toNat = p at *
  obtain ⟨hC, hR0, hR⟩ := divmod_cast c p hp
  have hP : (0 : Int) < (p : Int) := by exact_mod_cast hp
  apply greatest_le_core _ _ _ hP
  · cases n
    · simp only [Bool.false_eq_true, if_false]; omega
    · by_cases hr : c % p = 0
      · simp only [hr, if_true, Int.natCast_zero, Int.neg_mul] at *; omega
      · simp only [hr, if_false, if_true, Int.natCast_add, Int.natCast_one, Int.add_mul, Int.one_mul, Int.neg_mul]; omega
  · cases n
    · simp only [Bool.false_eq_true, if_false, Int.add_mul, Int.one_mul]; omega
    · by_cases hr : c % p = 0
      · simp only [hr, if_true, Int.natCast_zero, Int.neg_mul, Int.add_mul, Int.one_mul] at *; omega
      · have : (0 : Int) < ((c % p : Nat) : Int) := by omega
        simp only [hr, if_false, if_true, Int.natCast_add, Int.natCast_one, Int.neg_add, Int.neg_add_cancel_right,
          Int.neg_mul]; omega

-- ceil(2.5) = 3, ceil(-2.5) = -2, floor(2.5) = 2, floor(-2.5) = -3, ceil(-0.5) = -0
example : Dec.ceil (.fin false 25 (-1)) = .fin false 3 0 ∧ Dec.ceil (.fin true 25 (-1)) = .fin true 2 0 ∧
    Dec.floor (.fin false 25 (-1)) = .fin false 2 0 ∧ Dec.floor (.fin true 25 (-1)) = .fin true 3 0 ∧
    Dec.ceil (.fin true 5 (-1)) = .fin true 0 0 := by decide
example : ceilInt false 25 (-1) = 3 ∧ ceilInt true 25 (-1) = -2 ∧ floorInt false 25 (-1) = 2 ∧
    floorInt true 25 (-1) = -3 := by decide

/-! ## 9. comparison is comparison of the exact values -/

/-- `Dec.cmp` on finite values compares the signed coefficients written at any common exponent `m ≤ e1, e2`,
    i.e. the exact values `(-1)^n·c·10^e` -/
theorem cmp_by_value (n1 : Bool) (c1 : Nat) (e1 : Int) (n2 : Bool) (c2 : Nat) (e2 m : Int) (h1 : m ≤ e1) (h2 : m ≤ e2) :
    Dec.cmp (.fin n1 c1 e1) (.fin n2 c2 e2) =
      some (if sval n1 c1 e1 m < sval n2 c2 e2 m then -1 else if sval n1 c1 e1 m = sval n2 c2 e2 m then 0 else 1) := by
  show some (cmpFin n1 c1 e1 n2 c2 e2) = _
  rw [cmpFin_eq n1 c1 e1 n2 c2 e2 m h1 h2]
  rfl

theorem equal_by_value (n1 : Bool) (c1 : Nat) (e1 : Int) (n2 : Bool) (c2 : Nat) (e2 : Int) :
    Dec.equal (.fin n1 c1 e1) (.fin n2 c2 e2) = true ↔ SameValue (.fin n1 c1 e1) (.fin n2 c2 e2) := by
  rw [sameValue_iff_cmpFin, equal_iff]; simp [Dec.cmp]

theorem less_by_value (n1 : Bool) (c1 : Nat) (e1 : Int) (n2 : Bool) (c2 : Nat) (e2 m : Int) (h1 : m ≤ e1) (h2 : m ≤ e2) :
    Dec.less (.fin n1 c1 e1) (.fin n2 c2 e2) = true ↔ sval n1 c1 e1 m < sval n2 c2 e2 m := by
  unfold Dec.less
  rw [cmp_by_value n1 c1 e1 n2 c2 e2 m h1 h2]
  by_cases h : sval n1 c1 e1 m < sval n2 c2 e2 m
  · simp [h]
  · by_cases h' : sval n1 c1 e1 m = sval n2 c2 e2 m <;> simp [h, h']

theorem greater_by_value (n1 : Bool) (c1 : Nat) (e1 : Int) (n2 : Bool) (c2 : Nat) (e2 m : Int) (h1 : m ≤ e1) (h2 : m ≤ e2) :
    Dec.greater (.fin n1 c1 e1) (.fin n2 c2 e2) = true ↔ sval n2 c2 e2 m < sval n1 c1 e1 m := by
  unfold Dec.greater
  rw [cmp_by_value n1 c1 e1 n2 c2 e2 m h1 h2]
  by_cases h : sval n1 c1 e1 m < sval n2 c2 e2 m
  · simp [h]; omega
  · by_cases h' : sval n1 c1 e1 m = sval n2 c2 e2 m
    · simp [h']
    · simp [h, h']; omega

-- 0.30 = 0.3, 0.1 + 0.2 = 0.3, 1e1 > 9.99
example : Dec.equal (.fin false 30 (-2)) (.fin false 3 (-1)) = true := by decide
example : Dec.equal (Dec.add (.fin false 1 (-1)) (.fin false 2 (-1))) (.fin false 3 (-1)) = true := by decide
example : Dec.greater (.fin false 1 1) (.fin false 999 (-2)) = true := by decide

/-! ## 5. results that do not fit are correctly rounded

  `Close V k c4` (Jmes/Proofs/DecExact.lean): `2·V ≤ 2·c4·10^k + 10^k ∧ 2·c4·10^k ≤ 2·V + 10^k`, i.e.
  `|V − c4·10^k| ≤ 10^k / 2`: the kept coefficient `c4` at `k` dropped digits is within half a unit of its last digit
  of the exact coefficient `V`. -/

/-- a coefficient `c > MAXSIG` at an exponent `e ≥ EMIN`: `k ≥ 1` digits are dropped, the kept coefficient satisfies
    `10^33 ≤ c4 ≤ MAXSIG` (so the unit `10^k` is at most one unit of the 34th significant digit of the exact value)
    and `|c − c4·10^k| ≤ 10^k / 2`; the result is `c4·10^(e+k)`, or ±Inf if that exponent exceeds `EMAX`. -/
theorem reduce_close (neg : Bool) (c : Nat) (e : Int) (hc : MAXSIG < c) (he : EMIN ≤ e) :
    ∃ c4 k, 1 ≤ k ∧ c4 ≤ MAXSIG ∧ 10 ^ 33 ≤ c4 ∧ Close c k c4 ∧
      reduce neg c e false = if e + (k : Nat) > EMAX then .inf neg else normalize (.fin neg c4 (e + (k : Nat))) :=
  Dec.reduce_close neg c e hc he

/-- the bound as an absolute difference of integers at the common exponent `e` -/
theorem close_abs {V k c4 : Nat} (h : Close V k c4) :
    2 * ((V : Int) - (c4 : Int) * (10 : Int) ^ k).natAbs ≤ 10 ^ k := by
  obtain ⟨h1, h2⟩ := h
  have e1 : ((c4 * 10 ^ k : Nat) : Int) = (c4 : Int) * (10 : Int) ^ k := by simp
  rw [← e1]
  rw [Nat.mul_assoc] at h1 h2
  generalize c4 * 10 ^ k = W at *
  omega

/-- every case of `reduce` at `e ≥ EMIN` without sticky: exact, or correctly rounded keeping ≥ 34 digits -/
theorem reduce_exact_or_close (neg : Bool) (c : Nat) (e : Int) (he : EMIN ≤ e) (hhi : e ≤ EMAX) :
    reduce neg c e false = normalize (.fin neg c e) ∨
    ∃ c4 k, 1 ≤ k ∧ c4 ≤ MAXSIG ∧ 10 ^ 33 ≤ c4 ∧ Close c k c4 ∧
      reduce neg c e false = if e + (k : Nat) > EMAX then .inf neg else normalize (.fin neg c4 (e + (k : Nat))) := by
  by_cases hc : c ≤ MAXSIG
  · exact Or.inl (Dec.reduce_exact neg c e hc he hhi)
  · exact Or.inr (Dec.reduce_close neg c e (by omega) he)

/-- `*` in general: the exact product, or the product correctly rounded to ≥ 34 digits (or overflow) -/
theorem mul_exact_or_close (n1 n2 : Bool) (c1 c2 : Nat) (e1 e2 : Int) (h1 : c1 ≠ 0) (h2 : c2 ≠ 0)
    (hlo : EMIN ≤ e1 + e2) (hhi : e1 + e2 ≤ EMAX) :
    Dec.mul (.fin n1 c1 e1) (.fin n2 c2 e2) = normalize (.fin (n1 != n2) (c1 * c2) (e1 + e2)) ∨
    ∃ c4 k, 1 ≤ k ∧ c4 ≤ MAXSIG ∧ 10 ^ 33 ≤ c4 ∧ Close (c1 * c2) k c4 ∧
      Dec.mul (.fin n1 c1 e1) (.fin n2 c2 e2) =
        if e1 + e2 + (k : Nat) > EMAX then .inf (n1 != n2) else normalize (.fin (n1 != n2) c4 (e1 + e2 + (k : Nat))) := by
  simp only [Dec.mul, h1, h2, or_self, if_false]
  exact reduce_exact_or_close _ _ _ hlo hhi

/-- `+` in general -/
theorem add_exact_or_close (n1 n2 : Bool) (c1 c2 : Nat) (e1 e2 : Int) (h1 : c1 ≠ 0) (h2 : c2 ≠ 0) (s : Int)
    (hs : s = sval n1 c1 e1 (min e1 e2) + sval n2 c2 e2 (min e1 e2))
    (hlo : EMIN ≤ min e1 e2) (hhi : min e1 e2 ≤ EMAX) :
    Dec.add (.fin n1 c1 e1) (.fin n2 c2 e2) = normalize (.fin (decide (s < 0)) s.natAbs (min e1 e2)) ∨
    ∃ c4 k, 1 ≤ k ∧ c4 ≤ MAXSIG ∧ 10 ^ 33 ≤ c4 ∧ Close s.natAbs k c4 ∧
      Dec.add (.fin n1 c1 e1) (.fin n2 c2 e2) =
        if min e1 e2 + (k : Nat) > EMAX then .inf (decide (s < 0))
        else normalize (.fin (decide (s < 0)) c4 (min e1 e2 + (k : Nat))) := by
  show addFin n1 c1 e1 n2 c2 e2 = _ ∨ ∃ c4 k, _ ∧ _ ∧ _ ∧ _ ∧ addFin n1 c1 e1 n2 c2 e2 = _
  unfold addFin
  simp only [h1, h2, if_false]
  unfold sval at hs
  rw [← hs]
  by_cases h0 : s = 0
  · left; simp [h0, normalize_zero]
  · simp only [h0, if_false]
    exact reduce_exact_or_close _ _ _ hlo hhi

/-- `/` in general (`CloseD X D k c4`: `|X/D − c4·10^k| ≤ 10^k / 2`, stated without division as
    `2·X ≤ (2·c4·10^k + 10^k)·D ∧ 2·c4·10^k·D ≤ 2·X + 10^k·D`): every quotient of non-zero finite decimals whose
    exponent does not underflow is the exact quotient `c1·10^K / c2` (at exponent `e1 − e2 − K`, `K = 40 + ndigits c2`)
    correctly rounded to a coefficient `10^33 ≤ c4 ≤ MAXSIG` — at least 34 significant digits, error at most half a unit
    of the last one — or ±Inf on overflow. -/
theorem quo_close (n1 n2 : Bool) (c1 c2 : Nat) (e1 e2 : Int) (h1 : c1 ≠ 0) (h2 : c2 ≠ 0)
    (he : EMIN ≤ e1 - e2 - ((40 + ndigits c2 : Nat) : Int)) :
    ∃ c4 k, 1 ≤ k ∧ c4 ≤ MAXSIG ∧ 10 ^ 33 ≤ c4 ∧ CloseD (c1 * 10 ^ (40 + ndigits c2)) c2 k c4 ∧
      Dec.quo (.fin n1 c1 e1) (.fin n2 c2 e2) =
        if e1 - e2 - ((40 + ndigits c2 : Nat) : Int) + (k : Nat) > EMAX then .inf (n1 != n2)
        else normalize (.fin (n1 != n2) c4 (e1 - e2 - ((40 + ndigits c2 : Nat) : Int) + (k : Nat))) :=
  Dec.quo_close n1 n2 c1 c2 e1 e2 h1 h2 he

/-- `//` and `%`: the integer quotient / the remainder of the aligned coefficients, exact when they fit and correctly
    rounded otherwise (operands of equal sign, where Go's truncation and the standard's flooring agree) -/
theorem idiv_exact_or_close (n1 n2 : Bool) (c1 c2 : Nat) (e1 e2 : Int) (h1 : c1 ≠ 0) (h2 : c2 ≠ 0) :
    let q := (c1 * 10 ^ (e1 - min e1 e2).toNat) / (c2 * 10 ^ (e2 - min e1 e2).toNat)
    (Dec.quoRem (.fin n1 c1 e1) (.fin n2 c2 e2)).1 = normalize (.fin (n1 != n2) q 0) ∨
    ∃ c4 k, 1 ≤ k ∧ c4 ≤ MAXSIG ∧ 10 ^ 33 ≤ c4 ∧ Close q k c4 ∧
      (Dec.quoRem (.fin n1 c1 e1) (.fin n2 c2 e2)).1 =
        if (0 : Int) + (k : Nat) > EMAX then .inf (n1 != n2) else normalize (.fin (n1 != n2) c4 (0 + (k : Nat))) := by
  simp only [Dec.quoRem, h1, h2, if_false, pow10]
  exact reduce_exact_or_close _ _ _ (by decide) (by decide)

-- 1/3 and 2/3: the quotient 0.333…3 (34 threes) and 0.666…67, within half a unit of the 34th digit
example : Dec.quo (.fin false 1 0) (.fin false 3 0) = .fin false 3333333333333333333333333333333333 (-34) := by decide
example : Dec.quo (.fin false 2 0) (.fin false 3 0) = .fin false 6666666666666666666666666666666667 (-34) := by decide
example : CloseD (2 * 10 ^ 41) 3 7 6666666666666666666666666666666667 := by unfold CloseD; decide

-- 10^34 + 1 (35 digits) is still ≤ MAXSIG and exact; 2·10^34 + 1 is not: its last digit is rounded away
example : Dec.add (.fin false 1 34) (.fin false 1 0) = .fin false 10000000000000000000000000000000001 0 := by decide
example : Dec.add (.fin false 2 34) (.fin false 1 0) = .fin false 2 34 := by decide
-- 9999999999999999999999999999999999 * 10 + 5 (35 digits, tie): round-half-even goes up to 10^35
example : reduce false 99999999999999999999999999999999995 0 = .fin false 1 35 := by decide
example : Close 99999999999999999999999999999999995 1 10000000000000000000000000000000000 := by
  unfold Close; decide
-- MAXSIG itself is representable, MAXSIG + 1 is not
example : reduce false 12980742146337069071326240823050239 0 = .fin false 12980742146337069071326240823050239 0 := by decide
example : reduce false 12980742146337069071326240823050241 0 = .fin false 1298074214633706907132624082305024 1 := by decide

/-! ## 6. division by zero and overflow are errors, never an Inf/NaN value -/

theorem checkD_fin (n : Bool) (c : Nat) (e : Int) : checkD (.fin n c e) = .ok (.num (.dec (.fin n c e))) := rfl
theorem checkD_nan : checkD .nan = .err [Cat.notANumber] := rfl
theorem checkD_inf (n : Bool) : checkD (.inf n) = .err [Cat.notANumber] := rfl

/-- `checkD` never lets a NaN / ±Inf through: an `.ok` outcome is a finite decimal … -/
theorem checkD_ok {r : Dec} {v : Val} (h : checkD r = .ok v) : ∃ n c e, r = .fin n c e ∧ v = .num (.dec (.fin n c e)) := by
  cases r with
  | nan => simp [checkD_nan] at h
  | inf n => simp [checkD_inf] at h
  | fin n c e => simp only [checkD_fin, Res.ok.injEq] at h; exact ⟨n, c, e, rfl, h.symm⟩

/-- … and a NaN / ±Inf result is the `not-a-number` error -/
theorem overflow_is_error {r : Dec} (h : r.isSpecial = true) : checkD r = .err [Cat.notANumber] := by
  cases r with
  | nan => rfl
  | inf n => rfl
  | fin n c e => simp [Dec.isSpecial] at h

theorem checkF_ok {r : F64} {v : Val} (h : checkF r = .ok v) : ∃ n m e, v = .num (.f64 (.fin n m e)) := by
  cases r with
  | nan => simp [checkF, F64.isInf, F64.isNaN, errNaN] at h
  | inf n => simp [checkF, F64.isInf, errNaN] at h
  | fin n m e => simp only [checkF, F64.isInf, F64.isNaN, Bool.false_eq_true, if_false, Res.ok.injEq] at h; exact ⟨n, m, e, h.symm⟩

/-- the common shape of the six arithmetic operators -/
theorem arith_ok {fop : F64 → F64 → F64} {dop : Dec → Dec → Dec} {x y v : Val} (h : arith fop dop x y = .ok v) :
    (∃ n c e, v = .num (.dec (.fin n c e))) ∨ (∃ n m e, v = .num (.f64 (.fin n m e))) := by
  unfold arith at h
  split at h
  · exact Or.inr (checkF_ok h)
  · split at h
    · simp [errType] at h
    · split at h
      · simp [errType] at h
      · obtain ⟨n, c, e, _, hv⟩ := checkD_ok h
        exact Or.inl ⟨n, c, e, hv⟩

def isArith : BinOp → Bool
  | .add | .sub | .mul | .div | .idiv | .mod => true
  | _ => false

/-- every successful result of `+ - * / // %` is a finite decimal or a finite float: no Inf, no NaN -/
theorem arith_result_finite {op : BinOp} {l r v : Val} (hop : isArith op = true) (h : applyBinOp op l r = .ok v) :
    (∃ n c e, v = .num (.dec (.fin n c e))) ∨ (∃ n m e, v = .num (.f64 (.fin n m e))) := by
  cases op <;> simp [isArith] at hop <;> exact arith_ok h

/-- the decimal path of an operator (no float pair) -/
theorem arith_decimal {fop : F64 → F64 → F64} {dop : Dec → Dec → Dec} {x y : Val} {xd yd : Dec}
    (hf : toFloatPair x y = none) (hx : toDecimal x = some xd) (hy : toDecimal y = some yd) :
    arith fop dop x y = checkD (dop xd yd) := by
  simp [arith, hf, hx, hy]

/-- whenever the decimal result of an operator is NaN or ±Inf (overflow, 0/0, x/0, Inf-Inf …), the evaluator reports
    `not-a-number` -/
theorem arith_overflow_is_error {fop : F64 → F64 → F64} {dop : Dec → Dec → Dec} {x y : Val} {xd yd : Dec}
    (hf : toFloatPair x y = none) (hx : toDecimal x = some xd) (hy : toDecimal y = some yd)
    (h : (dop xd yd).isSpecial = true) : arith fop dop x y = .err [Cat.notANumber] := by
  rw [arith_decimal hf hx hy, overflow_is_error h]

theorem quo_zero_special (xd : Dec) (m : Bool) (e : Int) : (Dec.quo xd (.fin m 0 e)).isSpecial = true := by
  cases xd with
  | nan => rfl
  | inf n => rfl
  | fin n c e' => by_cases hc : c = 0 <;> simp [Dec.quo, hc, Dec.isSpecial]

theorem quoRem_zero_special (xd : Dec) (m : Bool) (e : Int) :
    (Dec.quoRem xd (.fin m 0 e)).1.isSpecial = true ∧ (Dec.quoRem xd (.fin m 0 e)).2.isSpecial = true := by
  cases xd with
  | nan => exact ⟨rfl, rfl⟩
  | inf n => exact ⟨rfl, rfl⟩
  | fin n c e' => by_cases hc : c = 0 <;> simp [Dec.quoRem, hc, Dec.isSpecial]

/-- `x / 0`, `x // 0`, `x % 0` (decimal path: not both operands floats; the divisor a finite zero of either sign and any
    exponent; the dividend any number, finite or special) are `not-a-number` errors -/
theorem div_zero_is_error {x y : Val} {xd : Dec} {m : Bool} {e : Int}
    (hf : toFloatPair x y = none) (hx : toDecimal x = some xd) (hy : toDecimal y = some (.fin m 0 e)) :
    divide x y = .err [Cat.notANumber] ∧ integerDivide x y = .err [Cat.notANumber] ∧
      modulo x y = .err [Cat.notANumber] :=
  ⟨arith_overflow_is_error hf hx hy (quo_zero_special xd m e),
   arith_overflow_is_error hf hx hy (quoRem_zero_special xd m e).1,
   arith_overflow_is_error hf hx hy (quoRem_zero_special xd m e).2⟩

example : divide (.num (.jnum [0x31])) (.num (.jnum [0x30])) = .err [Cat.notANumber] :=
  (div_zero_is_error (xd := .fin false 1 0) (m := false) (e := 0) rfl (by decide) (by decide)).1
example : modulo (.num (.int .i64 7)) (.num (.dec (.fin true 0 (-3)))) = .err [Cat.notANumber] :=
  (div_zero_is_error (xd := .fin false 7 0) rfl (by decide) rfl).2.2
-- overflow: 1e6000 * 1e6000
example : multiply (.num (.dec (.fin false 1 6000))) (.num (.dec (.fin false 1 6000))) = .err [Cat.notANumber] :=
  arith_overflow_is_error (xd := .fin false 1 6000) (yd := .fin false 1 6000) rfl rfl rfl (by decide)
example : add (.num (.jnum [0x31])) (.num (.jnum [0x32])) = .ok (.num (.dec (.fin false 3 0))) := by
  rw [add, arith_decimal (xd := .fin false 1 0) (yd := .fin false 2 0) rfl (by decide) (by decide),
    show Dec.add (.fin false 1 0) (.fin false 2 0) = .fin false 3 0 by decide]
  rfl

/-! ## 10. number texts are read exactly -/

/-- a text of the JSON number grammar: `[-] int [. frac] [(e|E) [+|-] digits]` (`fp = []`: no fraction part;
    `ex = some (upper, sign, digits)`: exponent part with `E`/`e`, optional sign (`some true` = `-`)) -/
def numText (neg : Bool) (ip fp : Bytes) (ex : Option (Bool × Option Bool × Bytes)) : Bytes :=
  (if neg then [0x2D] else []) ++
    ((ip ++ (match fp with | [] => [] | f :: fp' => 0x2E :: f :: fp')) ++
      (match ex with | none => [] | some (upper, sg, ep) => expText upper sg ep))

/-- the exponent the text denotes -/
def numTextExp (fp : Bytes) (ex : Option (Bool × Option Bool × Bytes)) : Int :=
  (match ex with
   | none => 0
   | some (_, sg, ep) => if sg == some true then -(dval 0 ep : Int) else dval 0 ep) - (fp.length : Nat)

theorem mant_scan (sep : Bool) (b : Nat) (ip fp : Bytes) (hd : ∀ x ∈ b :: ip, isDigit x = true)
    (hf : ∀ x ∈ fp, isDigit x = true) (hC : dval 0 ((b :: ip) ++ fp) ≤ MAXSIG) :
    ∃ D, prun sep {} ((b :: ip) ++ (match fp with | [] => [] | f :: fp' => 0x2E :: f :: fp')) =
      some (mantState (dval 0 ((b :: ip) ++ fp)) (fp.length : Nat) D) := by
  have hP := Nat.le_trans hC MAXSIG_le_PFULL
  cases fp with
  | nil =>
    refine ⟨false, ?_⟩
    simp only [List.append_nil] at hP ⊢
    exact prun_int sep b ip hd hP
  | cons f fp' => exact ⟨true, prun_frac sep b ip f fp' hd hf hP⟩

/-- **`parseNumber` is exact**: a text `int[.frac][e±digits]` whose digit string `int ++ frac` is a coefficient
    `≤ MAXSIG` — in particular any text with at most 34 significant digits, see `parse_exact_34` — and whose
    exponent is in range denotes exactly `(-1)^neg · (int ++ frac) · 10^(exp − |frac|)`. -/
theorem parseNumber_exact (neg sep : Bool) (b : Nat) (ip fp : Bytes) (ex : Option (Bool × Option Bool × Bytes))
    (hd : ∀ x ∈ b :: ip, isDigit x = true) (hf : ∀ x ∈ fp, isDigit x = true)
    (hx : ∀ u sg ep, ex = some (u, sg, ep) → ep ≠ [] ∧ (∀ x ∈ ep, isDigit x = true) ∧ dval 0 ep ≤ 6189)
    (hC : dval 0 ((b :: ip) ++ fp) ≤ MAXSIG) (hlo : EMIN ≤ numTextExp fp ex) (hhi : numTextExp fp ex ≤ EMAX) :
    parseNumber (numText false (b :: ip) fp ex) neg sep =
      .ok (normalize (.fin neg (dval 0 ((b :: ip) ++ fp)) (numTextExp fp ex))) := by
  obtain ⟨D, hm⟩ := mant_scan sep b ip fp hd hf hC
  cases ex with
  | none =>
    have := parseNumber_mant _ _ _ D neg sep hm hC (by simpa [numTextExp] using hlo) (by simpa [numTextExp] using hhi)
    simpa [numText, numTextExp] using this
  | some t =>
    obtain ⟨u, sg, ep⟩ := t
    obtain ⟨hne, hde, hle⟩ := hx u sg ep rfl
    cases ep with
    | nil => exact absurd rfl hne
    | cons x ep =>
      have := parseNumber_mant_exp _ _ _ D neg sep u sg x ep hm hC hde hle (by simpa [numTextExp] using hlo)
        (by simpa [numTextExp] using hhi)
      simpa [numText, numTextExp] using this

/-- **`parse_exact`** (`decimal128.Parse`, used for `json.Number` operands): exact under the same conditions -/
theorem parse_exact (neg : Bool) (b : Nat) (ip fp : Bytes) (ex : Option (Bool × Option Bool × Bytes))
    (hd : ∀ x ∈ b :: ip, isDigit x = true) (hf : ∀ x ∈ fp, isDigit x = true)
    (hx : ∀ u sg ep, ex = some (u, sg, ep) → ep ≠ [] ∧ (∀ x ∈ ep, isDigit x = true) ∧ dval 0 ep ≤ 6189)
    (hC : dval 0 ((b :: ip) ++ fp) ≤ MAXSIG) (hlo : EMIN ≤ numTextExp fp ex) (hhi : numTextExp fp ex ≤ EMAX) :
    Dec.parse (numText neg (b :: ip) fp ex) =
      .ok (normalize (.fin neg (dval 0 ((b :: ip) ++ fp)) (numTextExp fp ex))) := by
  have hb : isDigit b = true := hd b (List.mem_cons_self ..)
  have h := parseNumber_exact neg true b ip fp ex hd hf hx hC hlo hhi
  cases neg with
  | false =>
    have : numText false (b :: ip) fp ex = b :: (numText false (b :: ip) fp ex).tail := by simp [numText]
    rw [this, parse_digit_head _ _ hb, ← this]; exact h
  | true =>
    have h1 : numText true (b :: ip) fp ex = 0x2D :: numText false (b :: ip) fp ex := by simp [numText]
    have h2 : numText false (b :: ip) fp ex = b :: (numText false (b :: ip) fp ex).tail := by simp [numText]
    rw [h1, h2, parse_minus_digit_head _ _ hb, ← h2]; exact h

/-- at most 34 significant digits (`|int| + |frac| ≤ 34`) always fit -/
theorem parse_exact_34 (neg : Bool) (b : Nat) (ip fp : Bytes) (ex : Option (Bool × Option Bool × Bytes))
    (hd : ∀ x ∈ b :: ip, isDigit x = true) (hf : ∀ x ∈ fp, isDigit x = true)
    (hx : ∀ u sg ep, ex = some (u, sg, ep) → ep ≠ [] ∧ (∀ x ∈ ep, isDigit x = true) ∧ dval 0 ep ≤ 6189)
    (h34 : (b :: ip).length + fp.length ≤ 34) (hlo : EMIN ≤ numTextExp fp ex) (hhi : numTextExp fp ex ≤ EMAX) :
    Dec.parse (numText neg (b :: ip) fp ex) =
      .ok (normalize (.fin neg (dval 0 ((b :: ip) ++ fp)) (numTextExp fp ex))) := by
  refine parse_exact neg b ip fp ex hd hf hx (dval_le_MAXSIG_of_length ?_ (by simp at h34 ⊢; omega)) hlo hhi
  intro x hx'
  rcases List.mem_append.mp hx' with h | h
  · exact hd x h
  · exact hf x h

/-- digits only: the integer itself -/
theorem parse_exact_int (b : Nat) (ip : Bytes) (hd : ∀ x ∈ b :: ip, isDigit x = true) (h34 : (b :: ip).length ≤ 34) :
    Dec.parse (b :: ip) = .ok (normalize (.fin false (dval 0 (b :: ip)) 0)) := by
  have := parse_exact_34 false b ip [] none hd (by simp) (by simp) (by simpa using h34) (by decide) (by decide)
  simpa [numText, numTextExp] using this

/-- the same for `Decimal.UnmarshalJSON`, the reader behind `to_number` -/
theorem unmarshal_exact (neg : Bool) (b : Nat) (ip fp : Bytes) (ex : Option (Bool × Option Bool × Bytes))
    (hd : ∀ x ∈ b :: ip, isDigit x = true) (hf : ∀ x ∈ fp, isDigit x = true)
    (hx : ∀ u sg ep, ex = some (u, sg, ep) → ep ≠ [] ∧ (∀ x ∈ ep, isDigit x = true) ∧ dval 0 ep ≤ 6189)
    (hC : dval 0 ((b :: ip) ++ fp) ≤ MAXSIG) (hlo : EMIN ≤ numTextExp fp ex) (hhi : numTextExp fp ex ≤ EMAX) :
    Dec.unmarshalJSON (numText neg (b :: ip) fp ex) =
      some (normalize (.fin neg (dval 0 ((b :: ip) ++ fp)) (numTextExp fp ex))) := by
  have hb := (isDigit_iff b).mp (hd b (List.mem_cons_self ..))
  have h := parseNumber_exact neg false b ip fp ex hd hf hx hC hlo hhi
  have h2 : numText false (b :: ip) fp ex = b :: (numText false (b :: ip) fp ex).tail := by simp [numText]
  cases neg with
  | false =>
    rw [h2] at h ⊢
    have h1 : b ≠ 0x6E := by omega
    have h3 : b ≠ 0x2B := by omega
    have h4 : b ≠ 0x2D := by omega
    simp only [Dec.unmarshalJSON, List.cons.injEq, h1, false_and, if_false, h3, h4, h]
  | true =>
    have h1 : numText true (b :: ip) fp ex = 0x2D :: numText false (b :: ip) fp ex := by simp [numText]
    rw [h1]
    simp [Dec.unmarshalJSON, h]

example : toNumber (.str [0x32, 0x2E, 0x35, 0x30]) = .num (.dec (.fin false 25 (-1))) := by
  have h1 : Json.isValidNumber [0x32, 0x2E, 0x35, 0x30] = true := by decide
  have h2 : Dec.unmarshalJSON [0x32, 0x2E, 0x35, 0x30] = some (.fin false 25 (-1)) := by decide
  simp [toNumber, h1, h2]

-- "0.1", "2.50", "1e2", "-12.5E-3", thirty-four nines
example : Dec.parse [0x30, 0x2E, 0x31] = .ok (.fin false 1 (-1)) := by decide
example : Dec.parse [0x32, 0x2E, 0x35, 0x30] = .ok (.fin false 25 (-1)) := by decide
example : Dec.parse [0x31, 0x65, 0x32] = .ok (.fin false 1 2) := by decide
example : Dec.parse [0x2D, 0x31, 0x32, 0x2E, 0x35, 0x45, 0x2D, 0x33] = .ok (.fin true 125 (-4)) := by decide
example : numText true [0x31, 0x32] [0x35] (some (true, some true, [0x33])) = [0x2D, 0x31, 0x32, 0x2E, 0x35, 0x45, 0x2D, 0x33] := by
  decide
example : Dec.parse (List.replicate 34 0x39) = .ok (.fin false 9999999999999999999999999999999999 0) := by decide
example : Dec.parse (List.replicate 34 0x39) = .ok (normalize (.fin false (dval 0 (List.replicate 34 0x39)) 0)) :=
  parse_exact_int 0x39 (List.replicate 33 0x39) (by decide) (by decide)
-- a 35th digit is rounded half-even: 99999999999999999999999999999999995 → 1e35
example : Dec.parse (List.replicate 34 0x39 ++ [0x35]) = .ok (.fin false 1 35) := by decide
-- the same through the evaluator: "0.1" + "0.2" == "0.3"
example : (match toDecimal (.num (.jnum [0x30, 0x2E, 0x31])), toDecimal (.num (.jnum [0x30, 0x2E, 0x32])) with
    | some a, some b => Dec.add a b | _, _ => .nan) = .fin false 3 (-1) := by decide

/-! ## 7. no value is routed through binary floating point

  `Val.NoFloat v` (Jmes/Proofs/NoFloat.lean): no `float64`/`float32` anywhere in `v` — what JSON text (`json.Number`),
  literals, decimals and Go integers give. -/

/-- `toDecimal` of a JSON number text / decimal / integer never involves `F64` (by definition) -/
theorem toDecimal_jnum (t : Bytes) :
    toDecimal (.num (.jnum t)) = (match Dec.parse t with | .ok d => some d | _ => none) := rfl
theorem toDecimal_dec (d : Dec) : toDecimal (.num (.dec d)) = some d := rfl
theorem toDecimal_int (k : IntKind) (i : Int) : toDecimal (.num (.int k i)) = some (Dec.ofInt i) := rfl

/-- integers are converted exactly (any size) -/
theorem ofInt_exact (i : Int) : Dec.ofInt i = normalize (.fin (decide (i < 0)) i.natAbs 0) := by
  unfold Dec.ofInt
  by_cases h : i = 0
  · subst h; simp [normalize_zero]
  · simp [h]

/-- no float path is taken as soon as one operand is not a float -/
theorem no_float_pair {x y : Val} (h : x.NoFloat ∨ y.NoFloat) : toFloatPair x y = none := by
  rcases h with h | h
  · exact toFloatPair_none_left y h
  · exact toFloatPair_none_right x h

theorem no_float_single {x : Val} (h : x.NoFloat) : toFloat x = none := toFloat_none h

/-- the six operators on `NoFloat` operands are the decimal functions and nothing else -/
theorem no_float_arith {x y : Val} (h : x.NoFloat ∨ y.NoFloat) :
    add x y = (match toDecimal x, toDecimal y with | some a, some b => checkD (Dec.add a b) | _, _ => errType) ∧
    subtract x y = (match toDecimal x, toDecimal y with | some a, some b => checkD (Dec.sub a b) | _, _ => errType) ∧
    multiply x y = (match toDecimal x, toDecimal y with | some a, some b => checkD (Dec.mul a b) | _, _ => errType) ∧
    divide x y = (match toDecimal x, toDecimal y with | some a, some b => checkD (Dec.quo a b) | _, _ => errType) ∧
    integerDivide x y =
      (match toDecimal x, toDecimal y with | some a, some b => checkD (Dec.quoRem a b).1 | _, _ => errType) ∧
    modulo x y =
      (match toDecimal x, toDecimal y with | some a, some b => checkD (Dec.quoRem a b).2 | _, _ => errType) :=
  ⟨arith_noFloat _ _ h, arith_noFloat _ _ h, arith_noFloat _ _ h, arith_noFloat _ _ h, arith_noFloat _ _ h,
   arith_noFloat _ _ h⟩

/-- … and their results contain no float -/
theorem no_float_binop {op : BinOp} {x y v : Val} (hxy : x.NoFloat ∨ y.NoFloat) (h : applyBinOp op x y = .ok v) :
    v.NoFloat := by
  cases op
  case eq | ne =>
    simp only [applyBinOp] at h
    cases he : equalR x y <;> simp [he, bind, Res.bind, pure] at h
    subst h; simp
  case lt | le | gt | ge =>
    simp only [applyBinOp, less, lessOrEqual, greater, greaterOrEqual, cmpOp, Res.ok.injEq] at h
    subst h
    split
    · simp
    · split <;> simp
  all_goals exact arith_result_noFloat hxy h

/-- unary minus, `abs`, `ceil`, `floor`, `to_number` on `NoFloat` operands: decimal functions only, `NoFloat` results -/
theorem no_float_unary {x : Val} (h : x.NoFloat) :
    negateVal x = (match toDecimal x with
      | none => .null
      | some d => if d.isZero then .num (.dec d) else .num (.dec d.neg)) ∧
    numAbs x = (match toDecimal x with | some d => .ok (.num (.dec d.abs)) | none => errType) ∧
    numCeil x = (match toDecimal x with | some d => .ok (.num (.dec d.ceil)) | none => errType) ∧
    numFloor x = (match toDecimal x with | some d => .ok (.num (.dec d.floor)) | none => errType) :=
  ⟨negateVal_noFloat h, numAbs_noFloat h, numCeil_noFloat h, numFloor_noFloat h⟩

theorem no_float_unary_results {x : Val} (h : x.NoFloat) :
    (negateVal x).NoFloat ∧ (toNumber x).NoFloat ∧ (∀ v, numAbs x = .ok v → v.NoFloat) ∧
      (∀ v, numCeil x = .ok v → v.NoFloat) ∧ (∀ v, numFloor x = .ok v → v.NoFloat) :=
  ⟨negateVal_result_noFloat h, toNumber_result_noFloat h, fun _ => numAbs_result_noFloat h,
   fun _ => numCeil_result_noFloat h, fun _ => numFloor_result_noFloat h⟩

/-- `sum`, `avg`, `max`, `min` have no float path at all: whatever the input, the result is a decimal, a string or null -/
theorem no_float_aggregates {x v : Val} :
    (numSum x = .ok v → v.NoFloat) ∧ (numAvg x = .ok v → v.NoFloat) ∧ (arrayMax x = .ok v → v.NoFloat) ∧
      (arrayMin x = .ok v → v.NoFloat) :=
  ⟨numSum_result_noFloat, numAvg_result_noFloat, arrayMax_result_noFloat, arrayMin_result_noFloat⟩

/-- `sum` is the left fold of `Dec.add` from 0 over the elements' decimals, `avg` divides by the length with `Dec.quo` -/
theorem sum_is_decimal_fold (t : ATag) (xs : List Val) :
    numSum (.arr t xs) = (match sumDec xs Dec.zero with
      | none => errType
      | some r => if enumSumOk t xs then checkD r else .nondet) := rfl

theorem avg_is_decimal_fold (t : ATag) (xs : List Val) (hne : xs ≠ []) :
    numAvg (.arr t xs) = (match sumDec xs Dec.zero with
      | none => errType
      | some r => if enumSumOk t xs then checkD (r.quo (Dec.ofInt xs.length)) else .nondet) := by
  cases xs with
  | nil => exact absurd rfl hne
  | cons x xs => rfl

example : add (.num (.jnum [0x30, 0x2E, 0x31])) (.num (.jnum [0x30, 0x2E, 0x32])) =
    .ok (.num (.dec (.fin false 3 (-1)))) := by
  rw [(no_float_arith (Or.inl (Val.noFloat_jnum _))).1,
    show toDecimal (.num (.jnum [0x30, 0x2E, 0x31])) = some (.fin false 1 (-1)) by decide,
    show toDecimal (.num (.jnum [0x30, 0x2E, 0x32])) = some (.fin false 2 (-1)) by decide]
  rfl
example : numSum (.arr .plain [.num (.jnum [0x30, 0x2E, 0x31]), .num (.jnum [0x30, 0x2E, 0x32])]) =
    .ok (.num (.dec (.fin false 3 (-1)))) := by
  rw [sum_is_decimal_fold,
    show sumDec [.num (.jnum [0x30, 0x2E, 0x31]), .num (.jnum [0x30, 0x2E, 0x32])] Dec.zero = some (.fin false 3 (-1)) by
      decide]
  rfl
example : Val.NoFloat (.arr .plain [.num (.jnum [0x31]), .obj [([0x61], .num (.dec (.fin false 1 0)))]]) := by
  simp [Val.noFloat_arr, Val.noFloat_obj]
example : ¬ Val.NoFloat (.arr .plain [.num (.f64 (.fin false 1 0))]) := by simp [Val.noFloat_arr]

/-! ### the whole evaluator keeps values float-free

  `INode.LitsNF n`: every literal in the expression is `NoFloat`; `EnvNF env`: every variable binding is. -/

/-- **evaluator invariant**: on a float-free document / current value / environment, an expression whose literals are
    float-free evaluates to a float-free value — no operator, function, projection or aggregate ever produces a
    `float64`.  (Proved on the reference semantics `seval` and transferred with the refinement `ieval_desugar`.) -/
theorem no_float_evaluator {root : Val} (hr : root.NoFloat) {n : INode} (hl : n.LitsNF) {cur : Val} (hc : cur.NoFloat)
    {env : Env} (he : EnvNF env) {w : Val} (hw : ieval root n cur env = .ok w) : w.NoFloat :=
  ieval_noFloat hr hl hc he hw

theorem no_float_evaluate {n : INode} (hl : n.LitsNF) {data : Val} (hd : data.NoFloat) {w : Val}
    (hw : evaluate n data = .ok w) : w.NoFloat := evaluate_noFloat hl hd hw

/-- JSON text — the document handed to the library as text, and every `` `…` `` literal of an expression — decodes
    to a float-free value: numbers are kept as their text (`json.Number`) -/
theorem json_text_no_float {s : Bytes} {v : Val} (h : Json.decode s = some v) : v.NoFloat := decode_noFloat h

theorem json_literal_no_float {s : Bytes} {v : Val} (h : parseJSONLiteral s = some v) : v.NoFloat :=
  parseJSONLiteral_noFloat h

-- `0.1` + `0.2` evaluated on the document `null`
example : evaluate (.binop .add (.lit (.num (.jnum [0x30, 0x2E, 0x31]))) (.lit (.num (.jnum [0x30, 0x2E, 0x32])))) .null =
    .ok (.num (.dec (.fin false 3 (-1)))) := by
  simp only [evaluate, ieval, Res.ok_bind, applyBinOp]
  rw [(no_float_arith (Or.inl (Val.noFloat_jnum _))).1,
    show toDecimal (.num (.jnum [0x30, 0x2E, 0x31])) = some (.fin false 1 (-1)) by decide,
    show toDecimal (.num (.jnum [0x30, 0x2E, 0x32])) = some (.fin false 2 (-1)) by decide]
  rfl
example : INode.LitsNF (.binop .add (.lit (.num (.jnum [0x30, 0x2E, 0x31]))) (.lit (.num (.jnum [0x30, 0x2E, 0x32])))) := by
  simp [INode.LitsNF]
example : Json.decode [0x5B, 0x31, 0x2E, 0x35, 0x5D] = some (.arr .plain [.num (.jnum [0x31, 0x2E, 0x35])]) := by
  rfl

end Jmes.C05
