/-
  The reference abstract syntax of the JMESPath Community standard (what a query *means*), as opposed to
  `INode`, which mirrors the Go parser's 55 node types with all their fused and "…Current" forms.

  Leaves act on the current node.  `sub l r` evaluates `r` against the value of `l` (both `l.r` and `l | r`:
  they differ only in the grammar — a pipe closes a projection).  The five projection forms carry their
  right-hand side; a projection without one has `current` there.
-/
import Jmes.Model.Node
namespace Jmes

inductive Tree where
  | lit (v : Val)
  | current
  | root
  | field (k : Bytes)
  | var (x : Bytes)
  | index (i : Int)
  | slice (a b : Int)               -- step 1, bounds as the parser encodes absent ones
  | sliceStep (a b s : Int)
  | sub (l r : Tree)
  | binop (op : BinOp) (l r : Tree)
  | and (l r : Tree)
  | or (l r : Tree)
  | not (c : Tree)
  | neg (c : Tree)
  | pos (c : Tree)
  | call (f : Fn) (args : List Tree)
  | prune (l : Tree)                -- l[*] with nothing after it: the array without its nulls
  | proj (l r : Tree)               -- l[*].r
  | sliceProj (l r : Tree)          -- l is a slice: arrays are projected, a string slice is passed to r
  | flatProj (l r : Tree)           -- l[].r
  | filterProj (l c r : Tree)       -- l[?c].r
  | valueProj (l r : Tree)          -- l.*.r
  | multiList (chk : Bool) (es : List Tree)           -- chk: yields null on a null current node
  | multiHash (chk : Bool) (kvs : List (Bytes × Tree))
  | letIn (bs : List (Bytes × Tree)) (body : Tree)
  | groupBy (a e : Tree)
  | map (e a : Tree)
  | maxBy (a e : Tree)
  | minBy (a e : Tree)
  | sortBy (a e : Tree)
  | merge (args : List Tree)
  | notNull (args : List Tree)
  | zip (args : List Tree)
  deriving Repr, Inhabited

end Jmes
