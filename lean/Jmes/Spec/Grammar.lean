/-
  A declarative grammar for the JMESPath Community expression language (C01, C04, C10).

  This file is a *specification*: there is no fuel and no parser state in it.

  * `PTree` — parse trees with explicit parentheses over `Token`s;
  * `flatten : PTree → List Token` — the in-order printer;
  * `erase : PTree → INode` — the node the grammar assigns to a tree.  It targets the Go-shaped `INode` (with its
    fused and `…Current` forms) rather than `Tree`: equality of `INode`s is the stronger statement ("builds exactly
    this tree"); `eraseT pt = desugar (erase pt)` is the reference-syntax reading;
  * levels: `lvlPipe … lvlBracket`, `lvlProj`, with `binLevel`; `levels_agree` states that they are the model's
    `precedence` / `projectionPrecedence`;
  * `llevel` / `rlevel` and `WellPrec` — the declarative precedence discipline together with the lexical side
    conditions the parser enforces on tokens (index fits int64, slice step ≠ 0, builtin exists with that arity, `&`
    only where the builtin wants it, keys are identifier tokens, literals decode);
  * `projFollowers` / `isRhsFollower` — the tokens that follow the projections of a tree (for C01's "the right-hand side
    extends until …").

  The implicit current node `icur` prints as nothing.  It is the left-most leaf of every right-hand side of a
  projection and of the leading forms `[*]`, `*`, `[]`, `[?…]`, `[n]`, `[a:b:c]`.  A tree is printed (and checked) in one
  of two *positions*: primary position (`rhs = false`: where an expression may start) and right-hand-side position
  (`rhs = true`: directly after a projection opener).  The position is inherited along the left spine and matters at
  the leaf only: `ostar icur r` prints `*` in primary position and `.*` in right-hand-side position; `[]` cannot start
  a right-hand side (it closes the projection instead); `.name`, `.[…]`, `.{…}` need a left operand in primary
  position.

  The theorems relating this grammar to the parser model are in `Jmes/Properties/C04G.lean`.
-/
import Jmes.Model.Parser
import Jmes.Spec.Desugar
namespace Jmes.Grammar
open Jmes

/-! ## Levels (binding powers) -/

def lvlPipe : Nat := 2
def lvlOr : Nat := 3
def lvlAnd : Nat := 4
def lvlCmp : Nat := 5
def lvlAdd : Nat := 6
def lvlMul : Nat := 7
/-- `[]` -/
def lvlFlatten : Nat := 8
/-- the power at which the right-hand side of a projection is read -/
def lvlProj : Nat := 9
/-- `[?` -/
def lvlFilter : Nat := 10
/-- `.` and `.*` -/
def lvlDot : Nat := 11
def lvlNot : Nat := 12
/-- `[*]`, `[n]`, `[a:b:c]` -/
def lvlBracket : Nat := 13
/-- above everything: atoms, parentheses, prefix forms seen from the left -/
def top : Nat := 14
/-- the body of `let … in` extends as far to the right as possible -/
def lvlLet : Nat := 1

/-- the level of a binary operator token: the eighteen spellings (`-` and `−`, `/` and `÷` share a token type, `*` and
    `×` do not) of the fifteen binary operators and of `&&`, `||`, `|` -/
def binLevel : TokenType → Option Nat
  | .pipe => some lvlPipe
  | .or => some lvlOr
  | .and => some lvlAnd
  | .equal | .notEqual | .less | .lessOrEqual | .greater | .greaterOrEqual => some lvlCmp
  | .add | .subtract => some lvlAdd
  | .asterisk | .multiply | .divide | .integerDivide | .modulo => some lvlMul
  | _ => none

/-- the node of a binary operator -/
def binNode : TokenType → INode → INode → INode
  | .pipe => .pipe
  | .or => .or
  | .and => .and
  | .equal => .binop .eq
  | .notEqual => .binop .ne
  | .less => .binop .lt
  | .lessOrEqual => .binop .le
  | .greater => .binop .gt
  | .greaterOrEqual => .binop .ge
  | .add => .binop .add
  | .subtract => .binop .sub
  | .asterisk | .multiply => .binop .mul
  | .divide => .binop .div
  | .integerDivide => .binop .idiv
  | .modulo => .binop .mod
  | _ => fun l _ => l

/-! ## Punctuation -/

def tLParen : Token := ⟨.openParen, [0x28]⟩
def tRParen : Token := ⟨.closeParen, [0x29]⟩
def tLBracket : Token := ⟨.openSqBrace, [0x5B]⟩
def tRBracket : Token := ⟨.closeSqBrace, [0x5D]⟩
def tLBrace : Token := ⟨.openBrace, [0x7B]⟩
def tRBrace : Token := ⟨.closeBrace, [0x7D]⟩
def tComma : Token := ⟨.comma, [0x2C]⟩
def tColon : Token := ⟨.colon, [0x3A]⟩
def tDot : Token := ⟨.dot, [0x2E]⟩
/-- the fused token `.*` -/
def tDotStar : Token := ⟨.objectWildcard, [0x2E, 0x2A]⟩
/-- a leading `*` -/
def tStar : Token := ⟨.asterisk, [0x2A]⟩
/-- `[*]` -/
def tArrayStar : Token := ⟨.arrayWildcard, [0x5B, 0x2A, 0x5D]⟩
/-- `[]` -/
def tFlatten : Token := ⟨.flatten, [0x5B, 0x5D]⟩
/-- `[?` -/
def tFilter : Token := ⟨.filter, [0x5B, 0x3F]⟩
def tNot : Token := ⟨.not, [0x21]⟩
def tPlus : Token := ⟨.add, [0x2B]⟩
/-- `&` -/
def tAmp : Token := ⟨.expression, [0x26]⟩
def tLet : Token := ⟨.let, [0x6C, 0x65, 0x74]⟩
def tIn : Token := ⟨.in, [0x69, 0x6E]⟩
def tAssign : Token := ⟨.assign, [0x3D]⟩

/-- the spelling of the token types that `flatten` prints by itself (every one of them has a single spelling) -/
def canonValue : TokenType → Option Bytes
  | .openParen => some [0x28]
  | .closeParen => some [0x29]
  | .openSqBrace => some [0x5B]
  | .closeSqBrace => some [0x5D]
  | .openBrace => some [0x7B]
  | .closeBrace => some [0x7D]
  | .comma => some [0x2C]
  | .colon => some [0x3A]
  | .dot => some [0x2E]
  | .objectWildcard => some [0x2E, 0x2A]
  | .asterisk => some [0x2A]
  | .arrayWildcard => some [0x5B, 0x2A, 0x5D]
  | .flatten => some [0x5B, 0x5D]
  | .filter => some [0x5B, 0x3F]
  | .not => some [0x21]
  | .add => some [0x2B]
  | .expression => some [0x26]
  | .let => some [0x6C, 0x65, 0x74]
  | .in => some [0x69, 0x6E]
  | .assign => some [0x3D]
  | _ => none

/-- a token whose type has a single spelling carries that spelling (true of every token the lexer produces) -/
def Canon (t : Token) : Prop := ∀ v, canonValue t.type = some v → t.value = v

/-! ## Parse trees -/

inductive PTree where
  /-- the implicit current node: prints as nothing -/
  | icur
  /-- identifier (quoted / unquoted), raw string literal, JSON literal, `@`, `$`, `$name` -/
  | atom (t : Token)
  | paren (t : PTree)
  /-- `!t` -/
  | not (t : PTree)
  /-- `-t` (the token is `-` or `−`) -/
  | neg (tok : Token) (t : PTree)
  /-- `+t` -/
  | pos (t : PTree)
  /-- `l op r` -/
  | bin (op : Token) (l r : PTree)
  /-- `l.r` where `r` starts with an identifier or a function call and carries its own postfix brackets -/
  | dotId (l r : PTree)
  /-- `l.[e, …]` -/
  | dotList (l : PTree) (es : List PTree)
  /-- `l.{k: e, …}` -/
  | dotHash (l : PTree) (kvs : List (Token × PTree))
  /-- `l.[*]`: the multi-select list of the single element `*`, spelt with the fused token `[*]` -/
  | dotStarList (l : PTree)
  /-- `l[n]` -/
  | index (l : PTree) (n : Token)
  /-- `name(arg, …)` -/
  | call (name : Token) (args : List PTree)
  /-- `&t`: an expression reference, as an argument of a builtin that takes one -/
  | ref (t : PTree)
  /-- `let $x = e, … in body` -/
  | letIn (bs : List (Token × PTree)) (body : PTree)
  /-- `[e, …]` -/
  | multiList (es : List PTree)
  /-- `{k: e, …}` -/
  | multiHash (kvs : List (Token × PTree))
  /-- `l[*] rhs` -/
  | star (l rhs : PTree)
  /-- `l.* rhs`; a leading `* rhs` when `l = icur` in primary position -/
  | ostar (l rhs : PTree)
  /-- `l[] rhs` -/
  | flat (l rhs : PTree)
  /-- `l[? cond ] rhs` -/
  | filt (l cond rhs : PTree)
  /-- `l[a:b:c] rhs`; `c = none`: no second colon, `c = some none`: a second colon without a step -/
  | slice (l : PTree) (a b : Option Token) (c : Option (Option Token)) (rhs : PTree)
  deriving Inhabited

def PTree.isIcur : PTree → Bool
  | .icur => true
  | _ => false

/-! ## The printer -/

/-- the tokens between `[` and `]` of a slice -/
def sliceToks (a b : Option Token) (c : Option (Option Token)) : List Token :=
  a.toList ++ tColon :: b.toList ++ (match c with | none => [] | some s => tColon :: s.toList)

mutual
/-- `flat rhs t`: the tokens of `t`, printed in right-hand-side position (`rhs = true`) or primary position -/
def flat : Bool → PTree → List Token
  | _, .icur => []
  | _, .atom t => [t]
  | _, .paren t => tLParen :: flat false t ++ [tRParen]
  | _, .not t => tNot :: flat false t
  | _, .neg tok t => tok :: flat false t
  | _, .pos t => tPlus :: flat false t
  | b, .bin op l r => flat b l ++ op :: flat false r
  | b, .dotId l r => flat b l ++ tDot :: flat false r
  | b, .dotList l es => flat b l ++ tDot :: tLBracket :: flatSep es ++ [tRBracket]
  | b, .dotHash l kvs => flat b l ++ tDot :: tLBrace :: flatKVs tColon kvs ++ [tRBrace]
  | b, .dotStarList l => flat b l ++ [tDot, tArrayStar]
  | b, .index l n => flat b l ++ [tLBracket, n, tRBracket]
  | _, .call name args => name :: tLParen :: flatSep args ++ [tRParen]
  | _, .ref t => tAmp :: flat false t
  | _, .letIn bs body => tLet :: flatKVs tAssign bs ++ tIn :: flat false body
  | _, .multiList es => tLBracket :: flatSep es ++ [tRBracket]
  | _, .multiHash kvs => tLBrace :: flatKVs tColon kvs ++ [tRBrace]
  | b, .star l rhs => flat b l ++ tArrayStar :: flat true rhs
  | b, .ostar l rhs =>
    (if l.isIcur then (if b then [tDotStar] else [tStar]) else flat b l ++ [tDotStar]) ++ flat true rhs
  | b, .flat l rhs => flat b l ++ tFlatten :: flat true rhs
  | b, .filt l c rhs => flat b l ++ tFilter :: flat false c ++ tRBracket :: flat true rhs
  | b, .slice l a bb c rhs => flat b l ++ tLBracket :: sliceToks a bb c ++ tRBracket :: flat true rhs
/-- comma-separated expressions -/
def flatSep : List PTree → List Token
  | [] => []
  | [e] => flat false e
  | e :: es => flat false e ++ tComma :: flatSep es
/-- comma-separated `key sep expression` pairs (`sep` is `:` in a multi-select hash and `=` in `let`) -/
def flatKVs (sep : Token) : List (Token × PTree) → List Token
  | [] => []
  | [(k, e)] => k :: sep :: flat false e
  | (k, e) :: rest => k :: sep :: flat false e ++ tComma :: flatKVs sep rest
end

/-- the in-order printer -/
def flatten (t : PTree) : List Token := flat false t

/-! ## The node a tree denotes -/

/-- which tokens are atoms, and the node of each; `none`: not an atom, or a literal that does not decode -/
def atomNode (t : Token) : Option INode :=
  match t.type with
  | .unquotedIdentifier => some (.field t.value)
  | .quotedIdentifier => (parseQuotedIdentifier t.value).map .field
  | .stringLiteral => some (.lit (.str (parseStringLiteral t.value)))
  | .jsonLiteral => (parseJSONLiteral t.value).map .lit
  | .variable => some (.variable t.value)
  | .current => some .current
  | .root => some .root
  | _ => none

/-- Go's nil child: the node of a left operand, `none` for the implicit current node -/
def optNode (l : PTree) (n : INode) : Option INode := if l.isIcur then none else some n

def subNode : Option INode → INode → INode
  | none, r => r
  | some c, r => .pipe c r

def listNode : Option INode → List INode → INode
  | none, [f] => .selectArraySingleCurrent f
  | some c, [f] => .selectArraySingle c f
  | none, fs => .selectArrayCurrent fs
  | some c, fs => .selectArray c fs

/-- the member list of a multi-select hash or of `let`, as the parser accumulates it: sorted by key, a repeated key
    keeps its last expression -/
def assocOf (ps : List (Bytes × INode)) : List (Bytes × INode) :=
  ps.foldl (fun acc p => Parser.assocInsert p.1 p.2 acc) []

def hashNode : Option INode → List (Bytes × INode) → INode
  | none, [(k, f)] => .selectObjectSingleCurrent k f
  | some c, [(k, f)] => .selectObjectSingle c k f
  | none, ps => .selectObjectCurrent (assocOf ps)
  | some c, ps => .selectObject c (assocOf ps)

def indexNode : Option INode → Int → INode
  | none, i => if 0 ≤ i ∧ i ≤ 255 then .smallIndexCurrent i.toNat else .indexCurrent i
  | some c, i => .index c i

def maxInt : Int := 2 ^ 63 - 1
def minInt : Int := -(2 ^ 63)

/-- `[a:b:c]` with absent parts: the step defaults to 1, the bounds to the ends in the direction of the step -/
def sliceNode (child : Option INode) (a b c : Option Int) : INode :=
  let step := c.getD 1
  let start := a.getD (if step < 0 then maxInt else 0)
  let stop := b.getD (if step < 0 then minInt else maxInt)
  if step = 1 then (match child with | none => .sliceCurrent start stop | some l => .slice l start stop)
  else (match child with | none => .sliceStepCurrent start stop step | some l => .sliceStep l start stop step)

def starNode : Option INode → Option INode → INode
  | none, none => .pruneArrayCurrent
  | none, some r => .projectArrayCurrent r
  | some l, none => .pruneArray l
  | some l, some r => .projectArray l r

def ostarNode : Option INode → Option INode → INode
  | none, none => .objectValuesCurrent
  | none, some r => .projectObjectCurrent r
  | some l, none => .objectValues l
  | some l, some r => .projectObject l r

def flatNode : Option INode → Option INode → INode
  | none, none => .flattenCurrent
  | none, some r => .flattenAndProjectCurrent r
  | some l, none => .flatten l
  | some l, some r => .flattenAndProject l r

def filtNode : Option INode → INode → Option INode → INode
  | none, f, none => .filterCurrent f
  | none, f, some r => .filterAndProjectCurrent f r
  | some l, f, none => .filter l f
  | some l, f, some r => .filterAndProject l f r

/-- the node of a builtin call, by the way the builtin takes its arguments -/
def callNode : Parser.ArgSpec → List INode → INode
  | .fixed _ _ mk, ns => mk ns
  | .varArg mk, ns => mk ns
  | .expArg mk, [a, e] => mk a e
  | .mapArg mk, [e, a] => mk e a
  | _, _ => .current

/-- the value of an integer literal token -/
def intOf (t : Token) : Option Int := parseInt64 t.value

/-- the key of a multi-select hash member -/
def keyOf (t : Token) : Bytes :=
  match t.type with
  | .quotedIdentifier => (parseQuotedIdentifier t.value).getD []
  | _ => t.value

mutual
/-- the node the grammar assigns to a tree -/
def erase : PTree → INode
  | .icur => .current
  | .atom t => (atomNode t).getD .current
  | .paren t => erase t
  | .not t => .not (erase t)
  | .neg _ t => .negate (erase t)
  | .pos t => .assertNumber (erase t)
  | .bin op l r => binNode op.type (erase l) (erase r)
  | .dotId l r => subNode (optNode l (erase l)) (erase r)
  | .dotList l es => listNode (optNode l (erase l)) (eraseL es)
  | .dotHash l kvs => hashNode (optNode l (erase l)) (eraseKVs keyOf kvs)
  | .dotStarList l => listNode (optNode l (erase l)) [.objectValuesCurrent]
  | .index l n => indexNode (optNode l (erase l)) ((intOf n).getD 0)
  | .call name args =>
    (match Parser.lookupBuiltin name.value with
     | none => .current
     | some spec => callNode spec (eraseL args))
  | .ref t => erase t
  | .letIn bs body => .defineVariables (assocOf (eraseKVs Token.value bs)) (erase body)
  | .multiList es => listNode none (eraseL es)
  | .multiHash kvs => hashNode none (eraseKVs keyOf kvs)
  | .star l rhs => starNode (optNode l (erase l)) (optNode rhs (erase rhs))
  | .ostar l rhs => ostarNode (optNode l (erase l)) (optNode rhs (erase rhs))
  | .flat l rhs => flatNode (optNode l (erase l)) (optNode rhs (erase rhs))
  | .filt l c rhs => filtNode (optNode l (erase l)) (erase c) (optNode rhs (erase rhs))
  | .slice l a b c rhs =>
    .projectArray (sliceNode (optNode l (erase l)) (a.bind intOf) (b.bind intOf) (c.bind fun s => s.bind intOf))
      ((optNode rhs (erase rhs)).getD .current)
def eraseL : List PTree → List INode
  | [] => []
  | e :: es => erase e :: eraseL es
def eraseKVs (key : Token → Bytes) : List (Token × PTree) → List (Bytes × INode)
  | [] => []
  | (k, e) :: rest => (key k, erase e) :: eraseKVs key rest
end

/-- the reference-syntax reading of a tree -/
def eraseT (t : PTree) : Tree := desugar (erase t)

/-! ## The precedence discipline -/

/-- the level of a postfix / infix form seen from the left: the minimum along the left spine; a form whose left operand
    is the implicit current node starts an expression or a right-hand side and is as tight as an atom -/
def lmin (lvl : Nat) (l : PTree) (ll : Nat) : Nat := if l.isIcur then top else min lvl ll

/-- `llevel t`: the lowest binding power among the forms on the left spine of `t`: `t` can be read by
    `expression p`, or continued from its left-most operand by the operator loop at power `p`, when `p < llevel t` -/
def llevel : PTree → Nat
  | .bin op l _ => lmin ((binLevel op.type).getD 0) l (llevel l)
  | .dotId l _ => lmin lvlDot l (llevel l)
  | .dotList l _ => lmin lvlDot l (llevel l)
  | .dotHash l _ => lmin lvlDot l (llevel l)
  | .dotStarList l => lmin lvlDot l (llevel l)
  | .index l _ => lmin lvlBracket l (llevel l)
  | .star l _ => lmin lvlBracket l (llevel l)
  | .slice l _ _ _ _ => lmin lvlBracket l (llevel l)
  | .ostar l _ => lmin lvlDot l (llevel l)
  | .flat l _ => lmin lvlFlatten l (llevel l)
  | .filt l _ _ => lmin lvlFilter l (llevel l)
  | _ => top

/-- `rlevel t`: what may follow `t` without being absorbed at its right edge: a token of level `≤ rlevel t` -/
def rlevel : PTree → Nat
  | .not t => min lvlNot (rlevel t)
  | .neg _ t => min lvlMul (rlevel t)
  | .pos t => min lvlMul (rlevel t)
  | .bin op _ r => min ((binLevel op.type).getD 0) (rlevel r)
  | .dotId _ r => min lvlDot (rlevel r)
  | .letIn _ _ => lvlLet
  | .star .. | .ostar .. | .flat .. | .filt .. | .slice .. => lvlProj
  | _ => top

/-- the first token is an identifier -/
def startsWithIdent (t : PTree) : Bool :=
  match (flat false t).head? with
  | some tok => tok.type == .unquotedIdentifier || tok.type == .quotedIdentifier
  | none => false

def isIntTok (t : Token) : Bool := t.type == .integerLiteral && (intOf t).isSome

def optIntTok : Option Token → Bool
  | none => true
  | some t => isIntTok t

/-- the tokens of a slice are integer literals that fit 64 bits; the step is not 0 -/
def sliceOK (a b : Option Token) (c : Option (Option Token)) : Bool :=
  optIntTok a && optIntTok b &&
  (match c with
   | none => true
   | some none => true
   | some (some s) => isIntTok s && intOf s != some 0)

/-- a member key is an identifier token (a quoted one must decode) -/
def keyOK (k : Token) : Bool :=
  k.type == .unquotedIdentifier || (k.type == .quotedIdentifier && (parseQuotedIdentifier k.value).isSome)

def isVarTok (v : Token) : Bool := v.type == .variable

def PTree.isRef : PTree → Bool
  | .ref _ => true
  | _ => false

/-- the argument list fits the builtin: count within the arity, `&` exactly where the builtin wants it -/
def argsOK : Parser.ArgSpec → List PTree → Bool
  | .fixed mn mx _, args => decide (1 ≤ args.length ∧ mn ≤ args.length ∧ args.length ≤ mx) && args.all (!·.isRef)
  | .varArg _, args => decide (1 ≤ args.length) && args.all (!·.isRef)
  | .expArg _, [a, e] => !a.isRef && e.isRef
  | .mapArg _, [e, a] => e.isRef && !a.isRef
  | _, _ => false

mutual
/-- `wp rhs t`: `t` is well formed in right-hand-side position (`rhs = true`) or primary position.
    For a form with a left operand `l` at level `lvl` the conditions are `wp rhs l` and `lvl ≤ rlevel l`; the implicit
    current node is allowed as `l` where the comment says so.  The right-hand side `r` of a projection is `icur`
    (no right-hand side) or a tree in right-hand-side position with `lvlProj < llevel r`. -/
def wp : Bool → PTree → Bool
  | _, .icur => false
  -- forms without a left operand: in primary position only
  | b, .atom t => !b && (atomNode t).isSome
  | b, .paren t => !b && wp false t
  | b, .not t => !b && wp false t && decide (lvlNot < llevel t)
  | b, .neg tok t => !b && tok.type == .subtract && wp false t && decide (lvlMul < llevel t)
  | b, .pos t => !b && wp false t && decide (lvlMul < llevel t)
  -- left-associative: the left operand may be at the same level, the right operand must be tighter
  | b, .bin op l r =>
    (match binLevel op.type with
     | none => false
     | some lvl => !l.isIcur && wp b l && decide (lvl ≤ rlevel l) && wp false r && decide (lvl < llevel r))
  -- `.name`: like a binary operator at `lvlDot` whose right operand starts with an identifier;
  -- `icur` as left operand in right-hand-side position only
  | b, .dotId l r =>
    (if l.isIcur then b else wp b l && decide (lvlDot ≤ rlevel l)) &&
      wp false r && decide (lvlDot < llevel r) && startsWithIdent r
  | b, .dotList l es =>
    (if l.isIcur then b else wp b l && decide (lvlDot ≤ rlevel l)) && !es.isEmpty && wpL es
  | b, .dotHash l kvs =>
    (if l.isIcur then b else wp b l && decide (lvlDot ≤ rlevel l)) && !kvs.isEmpty && wpKVs keyOK kvs
  | b, .dotStarList l => (if l.isIcur then b else wp b l && decide (lvlDot ≤ rlevel l))
  -- brackets: `icur` as left operand in both positions
  | b, .index l n => (if l.isIcur then true else wp b l && decide (lvlBracket ≤ rlevel l)) && isIntTok n
  | b, .call name args =>
    !b && name.type == .unquotedIdentifier &&
    (match Parser.lookupBuiltin name.value with
     | none => false
     | some spec => argsOK spec args) && wpArgs args
  | _, .ref _ => false
  | b, .letIn bs body => !b && !bs.isEmpty && wpKVs isVarTok bs && wp false body
  | b, .multiList es => !b && !es.isEmpty && wpL es
  | b, .multiHash kvs => !b && !kvs.isEmpty && wpKVs keyOK kvs
  | b, .star l rhs =>
    (if l.isIcur then true else wp b l && decide (lvlBracket ≤ rlevel l)) &&
      (rhs.isIcur || (wp true rhs && decide (lvlProj < llevel rhs)))
  | b, .ostar l rhs =>
    (if l.isIcur then true else wp b l && decide (lvlDot ≤ rlevel l)) &&
      (rhs.isIcur || (wp true rhs && decide (lvlProj < llevel rhs)))
  -- `[]` closes the projection to its left (`lvlFlatten < lvlProj`) and cannot start a right-hand side
  | b, .flat l rhs =>
    (if l.isIcur then !b else wp b l && decide (lvlFlatten ≤ rlevel l)) &&
      (rhs.isIcur || (wp true rhs && decide (lvlProj < llevel rhs)))
  | b, .filt l c rhs =>
    (if l.isIcur then true else wp b l && decide (lvlFilter ≤ rlevel l)) && wp false c &&
      (rhs.isIcur || (wp true rhs && decide (lvlProj < llevel rhs)))
  | b, .slice l a bb c rhs =>
    (if l.isIcur then true else wp b l && decide (lvlBracket ≤ rlevel l)) && sliceOK a bb c &&
      (rhs.isIcur || (wp true rhs && decide (lvlProj < llevel rhs)))
def wpL : List PTree → Bool
  | [] => true
  | e :: es => wp false e && wpL es
/-- arguments: an expression, or `&` and an expression -/
def wpArgs : List PTree → Bool
  | [] => true
  | .ref t :: es => wp false t && wpArgs es
  | e :: es => wp false e && wpArgs es
/-- members: the key (or variable) token is of the right kind, the expression is well formed -/
def wpKVs (ok : Token → Bool) : List (Token × PTree) → Bool
  | [] => true
  | (k, e) :: rest => ok k && wp false e && wpKVs ok rest
end

/-- **the grammar**: a token list is an expression iff it is `flatten t` for a `t` with `WellPrec t` -/
def WellPrec (t : PTree) : Prop := wp false t = true

instance (t : PTree) : Decidable (WellPrec t) := inferInstanceAs (Decidable (_ = true))

/-! ## What follows a projection -/

/-- the tokens that may follow a projection (and hence its right-hand side): end of input, a closing token, a comma,
    `in`, a binary operator (including `|`, `&&`, `||`), or `[]` -/
def isRhsFollower : TokenType → Bool
  | .end | .closeParen | .closeSqBrace | .closeBrace | .comma | .in | .flatten => true
  | t => (binLevel t).isSome

mutual
/-- `projFollowers rhs t next`: for every projection form occurring in `t` (printed in position `rhs`, and followed by
    the token `next`), the token that follows it in the printing -/
def projFollowers : Bool → PTree → Token → List Token
  | _, .icur, _ => []
  | _, .atom _, _ => []
  | _, .paren t, _ => projFollowers false t tRParen
  | _, .not t, nx => projFollowers false t nx
  | _, .neg _ t, nx => projFollowers false t nx
  | _, .pos t, nx => projFollowers false t nx
  | b, .bin op l r, nx => projFollowers b l op ++ projFollowers false r nx
  | b, .dotId l r, nx => projFollowers b l tDot ++ projFollowers false r nx
  | b, .dotList l es, _ => projFollowers b l tDot ++ projFollowersSep es tRBracket
  | b, .dotHash l kvs, _ => projFollowers b l tDot ++ projFollowersKVs kvs tRBrace
  | b, .dotStarList l, _ => projFollowers b l tDot
  | b, .index l _, _ => projFollowers b l tLBracket
  | _, .call _ args, _ => projFollowersSep args tRParen
  | _, .ref t, nx => projFollowers false t nx
  | _, .letIn bs body, nx => projFollowersKVs bs tIn ++ projFollowers false body nx
  | _, .multiList es, _ => projFollowersSep es tRBracket
  | _, .multiHash kvs, _ => projFollowersKVs kvs tRBrace
  | b, .star l rhs, nx => nx :: (projFollowers b l tArrayStar ++ projFollowers true rhs nx)
  | b, .ostar l rhs, nx => nx :: (projFollowers b l tDotStar ++ projFollowers true rhs nx)
  | b, .flat l rhs, nx => nx :: (projFollowers b l tFlatten ++ projFollowers true rhs nx)
  | b, .filt l c rhs, nx =>
    nx :: (projFollowers b l tFilter ++ projFollowers false c tRBracket ++ projFollowers true rhs nx)
  | b, .slice l _ _ _ rhs, nx => nx :: (projFollowers b l tLBracket ++ projFollowers true rhs nx)
/-- the elements of a comma-separated list closed by `close` -/
def projFollowersSep : List PTree → Token → List Token
  | [], _ => []
  | [e], close => projFollowers false e close
  | e :: es, close => projFollowers false e tComma ++ projFollowersSep es close
def projFollowersKVs : List (Token × PTree) → Token → List Token
  | [], _ => []
  | [(_, e)], close => projFollowers false e close
  | (_, e) :: rest, close => projFollowers false e tComma ++ projFollowersKVs rest close
end

/-! ## The levels are those of the model -/

theorem binLevel_precedence {t : TokenType} {l : Nat} (h : binLevel t = some l) : precedence t = l := by
  cases t <;> simp [binLevel] at h <;> subst h <;> rfl

theorem levels_agree :
    precedence .pipe = lvlPipe ∧ precedence .or = lvlOr ∧ precedence .and = lvlAnd ∧
    precedence .equal = lvlCmp ∧ precedence .add = lvlAdd ∧ precedence .multiply = lvlMul ∧
    precedence .flatten = lvlFlatten ∧ projectionPrecedence = lvlProj ∧ precedence .filter = lvlFilter ∧
    precedence .dot = lvlDot ∧ precedence .objectWildcard = lvlDot ∧ precedence .not = lvlNot ∧
    precedence .arrayWildcard = lvlBracket ∧ precedence .openSqBrace = lvlBracket ∧
    (∀ t, precedence t < top) :=
  ⟨rfl, rfl, rfl, rfl, rfl, rfl, rfl, rfl, rfl, rfl, rfl, rfl, rfl, rfl, fun t => by cases t <;> decide⟩


/-! ## Sanity: a dozen expressions in the style of the compliance corpus

  For each: the `PTree`, `flatten` is what the lexer produces, `WellPrec` holds.  That `Parser.parse` returns `erase` of
  the tree is `C04G.parse_complete` (examples there). -/

namespace Ex
def bs (s : String) : Bytes := s.toList.map Char.toNat
/-- an unquoted identifier -/
def idt (s : String) : PTree := .atom ⟨.unquotedIdentifier, bs s⟩
def int (s : String) : Token := ⟨.integerLiteral, bs s⟩
def op (ty : TokenType) (s : String) : Token := ⟨ty, bs s⟩
def lexes (src : String) (t : PTree) : Prop := lexAll (bs src) = (flatten t ++ [⟨.end, []⟩], none)
instance (src : String) (t : PTree) : Decidable (lexes src t) := inferInstanceAs (Decidable (_ = _))

/-- `foo[*].bar.baz`: the right-hand side extends over both selectors -/
def e01 : PTree := .star (idt "foo") (.dotId (.dotId .icur (idt "bar")) (idt "baz"))
/-- `foo[*].bar | [0]`: the pipe closes the projection -/
def e02 : PTree := .bin (op .pipe "|") (.star (idt "foo") (.dotId .icur (idt "bar"))) (.index .icur (int "0"))
/-- `a.b[0].c`: the index belongs to `b` -/
def e03 : PTree := .dotId (.dotId (idt "a") (.index (idt "b") (int "0"))) (idt "c")
/-- ``foo[?a == `1`].b`` -/
def e04 : PTree :=
  .filt (idt "foo") (.bin (op .equal "==") (idt "a") (.atom ⟨.jsonLiteral, bs "`1`"⟩)) (.dotId .icur (idt "b"))
/-- `foo[].bar[]`: the second `[]` closes the first projection -/
def e05 : PTree := .flat (.flat (idt "foo") (.dotId .icur (idt "bar"))) .icur
/-- `*.a.*`: a leading `*`, then the fused token `.*` inside its right-hand side -/
def e06 : PTree := .ostar .icur (.ostar (.dotId .icur (idt "a")) .icur)
/-- `foo[*][*]`: the second `[*]` is inside the right-hand side of the first -/
def e07 : PTree := .star (idt "foo") (.star .icur .icur)
/-- `a || b && c` -/
def e08 : PTree := .bin (op .or "||") (idt "a") (.bin (op .and "&&") (idt "b") (idt "c"))
/-- `!a.b` is `(!a).b` -/
def e09 : PTree := .dotId (.not (idt "a")) (idt "b")
/-- `-a * b` is `(-a) * b` -/
def e10 : PTree := .bin (op .asterisk "*") (.neg (op .subtract "-") (idt "a")) (idt "b")
/-- `{a: b, c: d}.a` -/
def e11 : PTree :=
  .dotId (.multiHash [(⟨.unquotedIdentifier, bs "a"⟩, idt "b"), (⟨.unquotedIdentifier, bs "c"⟩, idt "d")]) (idt "a")
/-- `sort_by(a, &b)[0]` -/
def e12 : PTree := .index (.call ⟨.unquotedIdentifier, bs "sort_by"⟩ [idt "a", .ref (idt "b")]) (int "0")
/-- `let $x = a in $x.b` -/
def e13 : PTree :=
  .letIn [(⟨.variable, bs "$x"⟩, idt "a")] (.dotId (.atom ⟨.variable, bs "$x"⟩) (idt "b"))
/-- `foo[1:3].a[0]` -/
def e14 : PTree := .slice (idt "foo") (some (int "1")) (some (int "3")) none (.dotId .icur (.index (idt "a") (int "0")))

example : lexes "foo[*].bar.baz" e01 ∧ WellPrec e01 := by decide
example : lexes "foo[*].bar | [0]" e02 ∧ WellPrec e02 := by decide
example : lexes "a.b[0].c" e03 ∧ WellPrec e03 := by decide
example : lexes "foo[?a == `1`].b" e04 ∧ WellPrec e04 := by decide +kernel
example : lexes "foo[].bar[]" e05 ∧ WellPrec e05 := by decide
example : lexes "*.a.*" e06 ∧ WellPrec e06 := by decide
example : lexes "foo[*][*]" e07 ∧ WellPrec e07 := by decide
example : lexes "a || b && c" e08 ∧ WellPrec e08 := by decide
example : lexes "!a.b" e09 ∧ WellPrec e09 := by decide
example : lexes "-a * b" e10 ∧ WellPrec e10 := by decide
example : lexes "{a: b, c: d}.a" e11 ∧ WellPrec e11 := by decide
example : lexes "sort_by(a, &b)[0]" e12 ∧ WellPrec e12 := by decide +kernel
example : lexes "let $x = a in $x.b" e13 ∧ WellPrec e13 := by decide
example : lexes "foo[1:3].a[0]" e14 ∧ WellPrec e14 := by decide

/-- the nodes -/
example : erase e01 = .projectArray (.field (bs "foo")) (.pipe (.field (bs "bar")) (.field (bs "baz"))) := rfl
example : erase e02 = .pipe (.projectArray (.field (bs "foo")) (.field (bs "bar"))) (.smallIndexCurrent 0) := rfl
example : erase e03 = .pipe (.pipe (.field (bs "a")) (.index (.field (bs "b")) 0)) (.field (bs "c")) := rfl
example : erase e05 = .flatten (.flattenAndProject (.field (bs "foo")) (.field (bs "bar"))) := rfl
example : erase e06 = .projectObjectCurrent (.objectValues (.field (bs "a"))) := rfl
example : erase e07 = .projectArray (.field (bs "foo")) .pruneArrayCurrent := rfl
example : erase e09 = .pipe (.not (.field (bs "a"))) (.field (bs "b")) := rfl
example : erase e10 = .binop .mul (.negate (.field (bs "a"))) (.field (bs "b")) := rfl
example : erase e14 = .projectArray (.slice (.field (bs "foo")) 1 3) (.index (.field (bs "a")) 0) := rfl
example : erase e12 = .index (.sortBy (.field (bs "a")) (.field (bs "b"))) 0 := rfl
example : erase e13 = .defineVariables [(bs "$x", .field (bs "a"))] (.pipe (.variable (bs "$x")) (.field (bs "b"))) :=
  rfl

/-- the projection of `foo[*].bar | [0]` is followed by `|`; those of `foo[].bar[]` by `[]` and by the end -/
example : projFollowers false e02 ⟨.end, []⟩ = [op .pipe "|"] := by decide
example : projFollowers false e05 ⟨.end, []⟩ = [⟨.end, []⟩, tFlatten] := by decide
example : projFollowers false (.paren e01) ⟨.end, []⟩ = [tRParen] := by decide

/-- the other readings are not well formed: `(foo[*].bar).baz` needs its parentheses, `(foo[*])[*]` too -/
example : ¬ WellPrec (.dotId (.star (idt "foo") (.dotId .icur (idt "bar"))) (idt "baz")) := by decide
example : ¬ WellPrec (.star (.star (idt "foo") .icur) .icur) := by decide
example : ¬ WellPrec (.not (.dotId (idt "a") (idt "b"))) := by decide
example : ¬ WellPrec (.index (.dotId (idt "a") (idt "b")) (int "0")) := by decide
/-- `a[*]b` is not an expression: a right-hand side starts at the implicit current node -/
example : ¬ WellPrec (.star (idt "a") (idt "b")) := by decide
end Ex

end Jmes.Grammar
