/-
  `desugar : INode → Tree`: every Go node type expressed in the reference syntax (DESIGN.md Appendix B).
-/
import Jmes.Spec.Tree
namespace Jmes

mutual
def desugar : INode → Tree
  | .lit v => .lit v
  | .current => .current
  | .root => .root
  | .field k => .field k
  | .variable x => .var x
  | .binop op l r => .binop op (desugar l) (desugar r)
  | .and l r => .and (desugar l) (desugar r)
  | .or l r => .or (desugar l) (desugar r)
  | .not c => .not (desugar c)
  | .negate c => .neg (desugar c)
  | .assertNumber c => .pos (desugar c)
  | .call f args => .call f (desugarList args)
  | .defineVariables vars child => .letIn (desugarFields vars) (desugar child)
  | .filter c f => .filterProj (desugar c) (desugar f) .current
  | .filterCurrent f => .filterProj .current (desugar f) .current
  | .filterAndProject l f r => .filterProj (desugar l) (desugar f) (desugar r)
  | .filterAndProjectCurrent f c => .filterProj .current (desugar f) (desugar c)
  | .flatten c => .flatProj (desugar c) .current
  | .flattenCurrent => .flatProj .current .current
  | .flattenAndProject l r => .flatProj (desugar l) (desugar r)
  | .flattenAndProjectCurrent c => .flatProj .current (desugar c)
  | .index c i => .sub (desugar c) (.index i)
  | .indexCurrent i => .index i
  | .smallIndexCurrent i => .index i
  | .objectValues c => .valueProj (desugar c) .current
  | .objectValuesCurrent => .valueProj .current .current
  | .pipe l r => .sub (desugar l) (desugar r)
  | .projectArray l r => if l.isSlice then .sliceProj (desugar l) (desugar r) else .proj (desugar l) (desugar r)
  | .projectArrayCurrent c => .proj .current (desugar c)
  | .projectObject l r => .valueProj (desugar l) (desugar r)
  | .projectObjectCurrent c => .valueProj .current (desugar c)
  | .pruneArray c => .prune (desugar c)
  | .pruneArrayCurrent => .prune .current
  | .selectArray c fs => .sub (desugar c) (.multiList true (desugarList fs))
  | .selectArrayCurrent fs => .multiList true (desugarList fs)
  | .selectArraySingle c f => .sub (desugar c) (.multiList true [desugar f])
  | .selectArraySingleCurrent f => .multiList false [desugar f]
  | .selectObject c fs => .sub (desugar c) (.multiHash true (desugarFields fs))
  | .selectObjectCurrent fs => .multiHash true (desugarFields fs)
  | .selectObjectSingle c k f => .sub (desugar c) (.multiHash true [(k, desugar f)])
  | .selectObjectSingleCurrent k f => .multiHash false [(k, desugar f)]
  | .slice c a b => .sub (desugar c) (.slice a b)
  | .sliceCurrent a b => .slice a b
  | .sliceStep c a b s => .sub (desugar c) (.sliceStep a b s)
  | .sliceStepCurrent a b s => .sliceStep a b s
  | .groupBy a e => .groupBy (desugar a) (desugar e)
  | .map e a => .map (desugar e) (desugar a)
  | .maxBy a e => .maxBy (desugar a) (desugar e)
  | .minBy a e => .minBy (desugar a) (desugar e)
  | .sortBy a e => .sortBy (desugar a) (desugar e)
  | .merge args => .merge (desugarList args)
  | .notNull args => .notNull (desugarList args)
  | .zip args => .zip (desugarList args)
def desugarList : List INode → List Tree
  | [] => []
  | n :: ns => desugar n :: desugarList ns
def desugarFields : List (Bytes × INode) → List (Bytes × Tree)
  | [] => []
  | (k, n) :: rest => (k, desugar n) :: desugarFields rest
end

end Jmes
