/-
  The lexical grammar of JMESPath (Community edition, with the `let` / arithmetic extensions the implementation
  supports) and the JSON text grammar of RFC 8259, as *specifications*: character classes, token shapes, "a string is
  a sequence of tokens separated by whitespace", and the JSON value grammar.  Nothing here mentions the lexer
  (`lexToken`, `scanDelim`, …) or the JSON decoder; only the token *types* of `Model/Lexer.lean` and the UTF-8 codec
  of `Basic/Bytes.lean` are used.
-/
import Jmes.Model.Lexer
namespace Jmes.Lexical
open Jmes

/-! ## Character classes (on bytes) -/

/-- `[0-9]` -/
def isDigitB (b : Nat) : Bool := 0x30 ≤ b && b ≤ 0x39
/-- `[A-Za-z_]` -/
def isIdStartB (b : Nat) : Bool := (0x41 ≤ b && b ≤ 0x5A) || (0x61 ≤ b && b ≤ 0x7A) || b == 0x5F
/-- `[A-Za-z0-9_]` -/
def isIdCharB (b : Nat) : Bool := isIdStartB b || isDigitB b
/-- TAB, LF, CR, SPACE -/
def isWsB (b : Nat) : Bool := b == 0x09 || b == 0x0A || b == 0x0D || b == 0x20

/-- a (possibly empty) run of whitespace -/
def Ws (w : Bytes) : Prop := ∀ b ∈ w, isWsB b = true

/-- `[A-Za-z_][A-Za-z0-9_]*` -/
def Ident (v : Bytes) : Prop := ∃ c t, v = c :: t ∧ isIdStartB c = true ∧ ∀ b ∈ t, isIdCharB b = true

/-- `[0-9]+` -/
def Digits (v : Bytes) : Prop := v ≠ [] ∧ ∀ b ∈ v, isDigitB b = true

/-- `let` -/
def kwLet : Bytes := [0x6C, 0x65, 0x74]
/-- `in` -/
def kwIn : Bytes := [0x69, 0x6E]

/-! ## Delimited tokens: `"…"`, `'…'`, `` `…` `` -/

/-- what follows the opening delimiter `d`, up to and including the closing one, under the scanning rule
    "a backslash escapes the next code point": a sequence of escape pairs (`\` and any code point) and of code points
    other than `\` and `d`, closed by `d`.  (Informally: a delimiter byte inside is always preceded by an odd run of
    backslashes.)  Every code point is a well-formed UTF-8 encoding of a scalar value. -/
inductive DelimBody (d : Nat) : Bytes → Prop
  | close : DelimBody d [d]
  | esc (c : Nat) (w : Bytes) : isScalar c = true → DelimBody d w → DelimBody d (0x5C :: (encodeRune c ++ w))
  | plain (c : Nat) (w : Bytes) : isScalar c = true → c ≠ d → c ≠ 0x5C → DelimBody d w →
      DelimBody d (encodeRune c ++ w)

/-- a whole delimited token -/
def Delimited (d : Nat) (v : Bytes) : Prop := ∃ w, v = d :: w ∧ DelimBody d w

/-! ## Token shapes -/

/-- the spelling(s) of every token type -/
def TokShape : TokenType → Bytes → Prop
  | .unquotedIdentifier, v => Ident v ∧ v ≠ kwLet ∧ v ≠ kwIn
  | .let, v => v = kwLet
  | .in, v => v = kwIn
  | .integerLiteral, v => Digits v ∨ ∃ d, v = 0x2D :: d ∧ Digits d        -- -?[0-9]+
  | .variable, v => ∃ w, v = 0x24 :: w ∧ Ident w                          -- $name
  | .root, v => v = [0x24]                                                -- $
  | .current, v => v = [0x40]                                             -- @
  | .openBrace, v => v = [0x7B]
  | .closeBrace, v => v = [0x7D]
  | .openParen, v => v = [0x28]
  | .closeParen, v => v = [0x29]
  | .openSqBrace, v => v = [0x5B]
  | .closeSqBrace, v => v = [0x5D]
  | .add, v => v = [0x2B]
  | .subtract, v => v = [0x2D] ∨ v = [0xE2, 0x88, 0x92]                   -- `-` or U+2212 MINUS SIGN
  | .asterisk, v => v = [0x2A]
  | .multiply, v => v = [0xC3, 0x97]                                      -- U+00D7 MULTIPLICATION SIGN
  | .divide, v => v = [0x2F] ∨ v = [0xC3, 0xB7]                           -- `/` or U+00F7 DIVISION SIGN
  | .integerDivide, v => v = [0x2F, 0x2F]                                 -- //
  | .modulo, v => v = [0x25]                                              -- %
  | .and, v => v = [0x26, 0x26]                                           -- &&
  | .expression, v => v = [0x26]                                          -- &
  | .or, v => v = [0x7C, 0x7C]                                            -- ||
  | .pipe, v => v = [0x7C]                                                -- |
  | .not, v => v = [0x21]                                                 -- !
  | .notEqual, v => v = [0x21, 0x3D]                                      -- !=
  | .equal, v => v = [0x3D, 0x3D]                                         -- ==
  | .assign, v => v = [0x3D]                                              -- =
  | .less, v => v = [0x3C]
  | .lessOrEqual, v => v = [0x3C, 0x3D]
  | .greater, v => v = [0x3E]
  | .greaterOrEqual, v => v = [0x3E, 0x3D]
  | .colon, v => v = [0x3A]
  | .comma, v => v = [0x2C]
  | .dot, v => v = [0x2E]
  | .objectWildcard, v => v = [0x2E, 0x2A]                                -- .*
  | .filter, v => v = [0x5B, 0x3F]                                        -- [?
  | .flatten, v => v = [0x5B, 0x5D]                                       -- []
  | .arrayWildcard, v => v = [0x5B, 0x2A, 0x5D]                           -- [*]
  | .quotedIdentifier, v => Delimited 0x22 v
  | .stringLiteral, v => Delimited 0x27 v
  | .jsonLiteral, v => Delimited 0x60 v
  | .end, _ => False          -- the end marker is not a substring of the input
  | .unknown, _ => False

/-- longest match: the bytes that may *not* directly follow a token (otherwise the lexer must have produced a
    longer token) -/
def forbiddenNext (t : Token) (b : Nat) : Bool :=
  match t.type with
  | .unquotedIdentifier | .let | .in | .variable => isIdCharB b
  | .integerLiteral => isDigitB b
  | .less | .greater | .assign | .not => b == 0x3D
  | .pipe => b == 0x7C
  | .expression => b == 0x26
  | .divide => t.value == [0x2F] && b == 0x2F
  | .dot => b == 0x2A
  | .openSqBrace => b == 0x3F || b == 0x5D
  | .subtract => t.value == [0x2D] && isDigitB b
  | .root => isIdStartB b
  | _ => false

/-! ## Token sequences -/

/-- `Lexes s ts`: `s` is `w0 ++ v1 ++ w1 ++ … ++ vk ++ wk` where the `vi` are the values of the tokens `ts` (without
    the final end marker), every `vi` has the shape of its token type, and the `wi` are whitespace runs -/
inductive Lexes : Bytes → List Token → Prop
  | done (w : Bytes) : Ws w → Lexes w [⟨.end, []⟩]
  | tok (w : Bytes) (t : Token) (rest : Bytes) (ts : List Token) : Ws w → TokShape t.type t.value →
      Lexes rest ts → Lexes (w ++ t.value ++ rest) (t :: ts)

/-- `w0 ++ v0 ++ w1 ++ v1 ++ …` -/
def render : List Bytes → List Bytes → Bytes
  | w :: ws, v :: vs => w ++ v ++ render ws vs
  | _, _ => []

/-- the canonical rendering: single blanks between the token values -/
def spaced : List Bytes → Bytes
  | [] => []
  | [v] => v
  | v :: vs => v ++ 0x20 :: spaced vs

/-! ## The JSON text grammar (RFC 8259), on bytes -/

/-- `[0-9]*` -/
def DigitStar (v : Bytes) : Prop := ∀ b ∈ v, isDigitB b = true

/-- int = zero / ( digit1-9 *DIGIT ) -/
def JInt (v : Bytes) : Prop := v = [0x30] ∨ ∃ d ds, v = d :: ds ∧ 0x31 ≤ d ∧ d ≤ 0x39 ∧ DigitStar ds
/-- frac = decimal-point 1*DIGIT (optional) -/
def JFrac (v : Bytes) : Prop := v = [] ∨ ∃ ds, v = 0x2E :: ds ∧ Digits ds
/-- exp = e [ minus / plus ] 1*DIGIT (optional) -/
def JExp (v : Bytes) : Prop :=
  v = [] ∨ ∃ e sg ds, v = e :: (sg ++ ds) ∧ (e = 0x65 ∨ e = 0x45) ∧ (sg = [] ∨ sg = [0x2B] ∨ sg = [0x2D]) ∧ Digits ds
/-- number = [ minus ] int [ frac ] [ exp ] -/
def JNumber (v : Bytes) : Prop :=
  ∃ sg i f e, v = sg ++ i ++ f ++ e ∧ (sg = [] ∨ sg = [0x2D]) ∧ JInt i ∧ JFrac f ∧ JExp e

def isHexB (b : Nat) : Bool := (0x30 ≤ b && b ≤ 0x39) || (0x61 ≤ b && b ≤ 0x66) || (0x41 ≤ b && b ≤ 0x46)

/-- the rest of a string after the opening quote, closing quote included: unescaped bytes other than `"`, `\` and
    the control characters (the decoder does not insist on well-formed UTF-8, it substitutes U+FFFD), the two-character
    escapes `\" \\ \/ \b \f \n \r \t`, and `\uXXXX` -/
inductive JStrBody : Bytes → Prop
  | close : JStrBody [0x22]
  | char (b : Nat) (w : Bytes) : 0x20 ≤ b → b ≠ 0x22 → b ≠ 0x5C → JStrBody w → JStrBody (b :: w)
  | esc (e : Nat) (w : Bytes) : e ∈ [0x22, 0x5C, 0x2F, 0x62, 0x66, 0x6E, 0x72, 0x74] → JStrBody w →
      JStrBody (0x5C :: e :: w)
  | uni (a b c d : Nat) (w : Bytes) : isHexB a = true → isHexB b = true → isHexB c = true → isHexB d = true →
      JStrBody w → JStrBody (0x5C :: 0x75 :: a :: b :: c :: d :: w)

mutual
/-- value = false / null / true / object / array / number / string -/
inductive JValue : Bytes → Prop
  | null : JValue [0x6E, 0x75, 0x6C, 0x6C]
  | true : JValue [0x74, 0x72, 0x75, 0x65]
  | false : JValue [0x66, 0x61, 0x6C, 0x73, 0x65]
  | num (n : Bytes) : JNumber n → JValue n
  | str (b : Bytes) : JStrBody b → JValue (0x22 :: b)
  | arrEmpty (w : Bytes) : Ws w → JValue (0x5B :: (w ++ [0x5D]))
  | arr (es : Bytes) : JElems es → JValue (0x5B :: es)
  | objEmpty (w : Bytes) : Ws w → JValue (0x7B :: (w ++ [0x7D]))
  | obj (ms : Bytes) : JMembers ms → JValue (0x7B :: ms)
/-- `ws value ws ( "," ws value ws )* "]"` -/
inductive JElems : Bytes → Prop
  | last (w1 v w2 : Bytes) : Ws w1 → JValue v → Ws w2 → JElems (w1 ++ v ++ w2 ++ [0x5D])
  | cons (w1 v w2 rest : Bytes) : Ws w1 → JValue v → Ws w2 → JElems rest →
      JElems (w1 ++ v ++ w2 ++ 0x2C :: rest)
/-- `ws string ws ":" ws value ws ( "," … )* "}"` -/
inductive JMembers : Bytes → Prop
  | last (w1 k w2 w3 v w4 : Bytes) : Ws w1 → JStrBody k → Ws w2 → Ws w3 → JValue v → Ws w4 →
      JMembers (w1 ++ 0x22 :: k ++ w2 ++ 0x3A :: w3 ++ v ++ w4 ++ [0x7D])
  | cons (w1 k w2 w3 v w4 rest : Bytes) : Ws w1 → JStrBody k → Ws w2 → Ws w3 → JValue v → Ws w4 → JMembers rest →
      JMembers (w1 ++ 0x22 :: k ++ w2 ++ 0x3A :: w3 ++ v ++ w4 ++ 0x2C :: rest)
end

/-- JSON-text = ws value ws -/
def JsonText (s : Bytes) : Prop := ∃ w1 v w2, s = w1 ++ v ++ w2 ∧ Ws w1 ∧ JValue v ∧ Ws w2

end Jmes.Lexical
