/-
  Denotational semantics of the reference syntax: `seval t cur env` (with the root document fixed).
  Value-level operations that are the subject of their own properties (arithmetic C05, comparison C20, slices
  C12, builtins C02, ordering C13) are shared with the model; what is specified here is the *structure*:
  sub-expressions, the five projections with null omission, multi-selects, boolean operators, let.
-/
import Jmes.Spec.Tree
import Jmes.Model.Eval
namespace Jmes
open Res

mutual
def seval (root : Val) : Tree → Val → Env → Res Val
  | .lit v, _, _ => .ok v
  | .current, cur, _ => .ok cur
  | .root, _, _ => .ok root
  | .field k, cur, _ => .ok (field k cur)
  | .var x, _, env =>
    (match env.get x with
     | some v => .ok v
     | none => .err [Cat.undefinedVariable])
  | .index i, cur, _ => index cur i
  | .slice a b, cur, _ => slice cur a b
  | .sliceStep a b s, cur, _ => sliceStep cur a b s
  | .sub l r, cur, env => do
    let a ← seval root l cur env
    seval root r a env
  | .binop op l r, cur, env => do
    let a ← seval root l cur env
    let b ← seval root r cur env
    applyBinOp op a b
  | .and l r, cur, env => do
    let a ← seval root l cur env
    if !isTrue a then pure a else seval root r cur env
  | .or l r, cur, env => do
    let a ← seval root l cur env
    if isTrue a then pure a else seval root r cur env
  | .not c, cur, env => do
    let a ← seval root c cur env
    pure (.bool (!isTrue a))
  | .neg c, cur, env => do
    let a ← seval root c cur env
    pure (negateVal a)
  | .pos c, cur, env => do
    let a ← seval root c cur env
    pure (if isNumber a then a else .null)
  | .call f args, cur, env => do
    let vs ← sevalList root args cur env
    applyFn f vs
  | .prune l, cur, env => do
    let a ← seval root l cur env
    pure (pruneArray a)
  | .proj l r, cur, env => do
    let a ← seval root l cur env
    projectArray (fun v => seval root r v env) a
  | .sliceProj l r, cur, env => do
    let a ← seval root l cur env
    match a with
    | .str _ => seval root r a env
    | _ => projectArray (fun v => seval root r v env) a
  | .flatProj l r, cur, env => do
    let a ← seval root l cur env
    flattenAndProjectArray (fun v => seval root r v env) a
  | .filterProj l c r, cur, env => do
    let a ← seval root l cur env
    filterAndProjectArray (fun v => seval root c v env) (fun v => seval root r v env) a
  | .valueProj l r, cur, env => do
    let a ← seval root l cur env
    projectObject (fun v => seval root r v env) a
  | .multiList chk es, cur, env =>
    if chk && cur.isNull then .ok .null
    else do
      let vs ← sevalList root es cur env
      pure (.arr .plain vs)
  | .multiHash chk kvs, cur, env =>
    if chk && cur.isNull then .ok .null
    else do
      let fs ← sevalFields root kvs cur env
      pure (.obj fs)
  | .letIn bs body, cur, env => do
    let vs ← sevalFields root bs cur env
    seval root body cur (vs ++ env)
  | .groupBy a e, cur, env => do
    let v ← seval root a cur env
    groupBy (fun x => seval root e x env) v
  | .map e a, cur, env => do
    let v ← seval root a cur env
    mapArray (fun x => seval root e x env) v
  | .maxBy a e, cur, env => do
    let v ← seval root a cur env
    arrayMaxBy (fun x => seval root e x env) v
  | .minBy a e, cur, env => do
    let v ← seval root a cur env
    arrayMinBy (fun x => seval root e x env) v
  | .sortBy a e, cur, env => do
    let v ← seval root a cur env
    sortArrayBy (fun x => seval root e x env) v
  | .merge args, cur, env => do
    let kvs ← sevalMerge root args cur env []
    pure (.obj kvs)
  | .notNull args, cur, env => sevalNotNull root args cur env
  | .zip args, cur, env => do
    let vs ← sevalZip root args cur env
    let cols ← zipArgs vs
    match cols with
    | [] => pure (.arr .plain [])
    | c :: cs =>
      let count := cs.foldl (fun m x => min m x.length) c.length
      pure (.arr .plain (zipRows count cols))
def sevalList (root : Val) : List Tree → Val → Env → Res (List Val)
  | [], _, _ => .ok []
  | t :: ts, cur, env => do
    let v ← seval root t cur env
    let vs ← sevalList root ts cur env
    pure (v :: vs)
def sevalFields (root : Val) : List (Bytes × Tree) → Val → Env → Res (List (Bytes × Val))
  | [], _, _ => .ok []
  | (k, t) :: rest, cur, env =>
    combineUnordered (sevalFields root rest cur env) k (seval root t cur env)
def sevalMerge (root : Val) : List Tree → Val → Env → List (Bytes × Val) → Res (List (Bytes × Val))
  | [], _, _, acc => .ok acc
  | t :: ts, cur, env, acc => do
    let v ← seval root t cur env
    match v with
    | .obj kvs => sevalMerge root ts cur env (kvs.foldl (fun a kv => objInsert kv.1 kv.2 a) acc)
    | _ => errType
def sevalNotNull (root : Val) : List Tree → Val → Env → Res Val
  | [], _, _ => .ok .null
  | t :: ts, cur, env => do
    let v ← seval root t cur env
    if v.isNull then sevalNotNull root ts cur env else pure v
def sevalZip (root : Val) : List Tree → Val → Env → Res (List Val)
  | [], _, _ => .ok []
  | t :: ts, cur, env => do
    let v ← seval root t cur env
    match v with
    | .arr _ _ => do
      let vs ← sevalZip root ts cur env
      pure (v :: vs)
    | _ => errType
end

end Jmes
