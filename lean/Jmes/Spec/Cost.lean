/-
  C09 — cost model of the integer-parameterised operations of /repo/internal/evaluator (slice.go, string.go,
  array.go), written next to the model functions of `Jmes/Model/{Slice,String,Array}.lean`.

  The model functions are total but do not count steps.  This file adds, for every Go loop nest whose trip count
  or allocation size is computed from an integer argument,

  * a *tick function* that follows the recursion of the corresponding model function call by call and counts one
    tick per loop iteration of the Go code after its fixes (`dropRunesTicks`, `dropLastRunesTicks`, `walkFwdTicks`,
    `walkBwdTicks`, `runeOffsetTicks`, `replaceTicks`, `splitTicks`), and
  * a *closed form* in the length `n` of the subject (array length / number of code points / number of bytes) and the
    integer parameters only (`sliceArrayCost`, `sliceStringCost`, `sliceStepArrayCost`, `sliceStepStringCost`,
    `findCost`, `splitCost`, `replaceCost`, `padCost`, `indexCost`).

  Units: a *tick* is one loop iteration (one `utf8.DecodeRuneInString`, one element copy, one candidate offset of
  `strings.Index`), a *cell* is one element of a `make([]any, n)` or one code point written to a `strings.Builder`.

  `Jmes/Properties/C09.lean` proves that the tick functions equal the closed forms, and that every closed form is
  bounded by a small linear function of `n` for ALL values of the integer parameters.
-/
import Jmes.Model.String
namespace Jmes.Cost
open Jmes

/-! ## Tick functions: one tick per iteration, following the model's recursion -/

/-- the skipping loop `for j := 1; j < step && len(s) > 0; j++ { _, sz = DecodeRuneInString(s); s = s[sz:] }`
    (`dropRunes k s` with `k = step - 1`): it stops as soon as the string is exhausted -/
def dropRunesTicks : Nat → Bytes → Nat
  | 0, _ => 0
  | k + 1, s => match s with
    | [] => 0
    | _ => 1 + dropRunesTicks k (s.drop (decodeRune s).2)

/-- the same loop from the end of the string (`dropLastRunes`) -/
def dropLastRunesTicks : Nat → Bytes → Nat
  | 0, _ => 0
  | k + 1, s => match s with
    | [] => 0
    | _ => 1 + dropLastRunesTicks k (s.take (s.length - (decodeLastRune s).2))

/-- the selecting loop of the string branch of `sliceStep`, positive step (`walkFwd`): per selected code point one
    decode, then the skipping loop -/
def walkFwdTicks (step : Nat) : Nat → Bytes → Nat
  | 0, _ => 0
  | n + 1, s =>
    let sz := (decodeRune s).2
    1 + dropRunesTicks (step - 1) (s.drop sz) + walkFwdTicks step n (dropRunes (step - 1) (s.drop sz))

/-- the same for a negative step (`walkBwd`) -/
def walkBwdTicks (step : Nat) : Nat → Bytes → Nat
  | 0, _ => 0
  | n + 1, s =>
    let sz := (decodeLastRune s).2
    1 + dropLastRunesTicks (step - 1) (s.take (s.length - sz))
      + walkBwdTicks step n (dropLastRunes (step - 1) (s.take (s.length - sz)))

/-- the offset conversion loop of `find_first`/`find_last`
    (`for j := 0; j < i; j++ { _, sz := DecodeRuneInString(s[n:]); if sz == 0 { return/break }; n += sz }`,
    `runeOffset i s acc`): the iteration that sees `sz == 0` is counted, and it is the last one -/
def runeOffsetTicks : Nat → Bytes → Nat
  | 0, _ => 0
  | i + 1, s => match s with
    | [] => 1
    | _ => 1 + runeOffsetTicks i (s.drop (decodeRune s).2)

/-- the measuring loop of `slice` on a string (`for i := start; i < stop; i++ { _, sz := DecodeRuneInString(s[idx:]);
    idx += sz }`, `runesLen k s`) -/
def runesLenTicks : Nat → Bytes → Nat
  | 0, _ => 0
  | k + 1, s => match s with
    | [] => 0
    | _ => 1 + runesLenTicks k (s.drop (decodeRune s).2)

/-- decode steps of the model's `slice` on the string `s`, following `Jmes.slice` (after `RuneCountInString`) -/
def sliceStringTicks (s : Bytes) (start stop : Int) : Nat :=
  match clamp1 (runeCount s) start stop with
  | none => 0
  | some (a, b) => dropRunesTicks a.toNat s + runesLenTicks (b - a).toNat (dropRunes a.toNat s)

/-- decode steps of the model's `sliceStep` on the string `s`, following `Jmes.sliceStep` (after
    `RuneCountInString`) -/
def sliceStepStringTicks (s : Bytes) (start stop step : Int) : Nat :=
  let l : Int := runeCount s
  match clampStep l start stop step with
  | none => 0
  | some (a, n) =>
    if step > 0 then dropRunesTicks a.toNat s + walkFwdTicks step.toNat n.toNat (dropRunes a.toNat s)
    else dropLastRunesTicks (l - 1 - a).toNat s
      + walkBwdTicks (-step).toNat n.toNat (dropLastRunes (l - 1 - a).toNat s)

/-- iterations of the conversion of the `start` argument of `find_first`/`find_last`, following `startOffset` -/
def startOffsetTicks (s : Bytes) (i : Int) : Nat :=
  if i < 0 then 0 else if i > s.length then 0 else runeOffsetTicks i.toNat s

/-- iterations of the conversion of the `finish` argument, following `finishOffset` -/
def finishOffsetTicks (s : Bytes) (j : Int) : Nat :=
  if j < 0 then 0 else if j > s.length then 0 else runeOffsetTicks j.toNat s

/-- number of replacements `strings.Replace(s, old, new, n)` performs for a non-empty `old` (`replaceAux`): the
    size of the result is `|s| + replacements · (|new| - |old|)` -/
def replaceTicks : Nat → Bytes → Bytes → Option Nat → Nat
  | 0, _, _, _ => 0
  | fuel + 1, s, old, n =>
    if n = some 0 then 0
    else match s with
      | [] => 0
      | _ :: t =>
        if old.isPrefixOf s then 1 + replaceTicks fuel (s.drop old.length) old (n.map (· - 1))
        else replaceTicks fuel t old n

/-- number of separators consumed by `splitOn s p n` (`splitAux`): iterations of the `for i < n` loop of
    `split`/`splitCount`, and the result has one more cell -/
def splitTicks : Nat → Bytes → Bytes → Option Nat → Nat
  | 0, _, _, _ => 0
  | fuel + 1, s, p, n =>
    if n = some 0 then 0
    else match s with
      | [] => 0
      | _ :: t =>
        if p.isPrefixOf s then 1 + splitTicks fuel (s.drop p.length) p (n.map (· - 1))
        else splitTicks fuel t p n

/-- `strings.Count(s, p)` for a non-empty `p`: the number of non-overlapping occurrences -/
def occurrences (s p : Bytes) : Nat := splitTicks (s.length + 1) s p none

/-- number of decoding steps from the end until the string is exhausted (`utf8.DecodeLastRuneInString` repeatedly);
    equal to `runeCount` on valid UTF-8 (`C09.backCount_encodeAll`), at most the byte length always -/
def backCountAux : Nat → Bytes → Nat
  | 0, _ => 0
  | _, [] => 0
  | fuel + 1, s => 1 + backCountAux fuel (s.take (s.length - (decodeLastRune s).2))
def backCount (s : Bytes) : Nat := backCountAux s.length s

/-! ## Closed forms in the length and the integer parameters -/

/-- `slice` on an array: bounds clamping and one sub-slice expression `a[start:stop]`; no loop, no allocation -/
def sliceArrayCost (_n _start _stop : Int) : Nat := 1

/-- `slice` on a string of `n` code points: `RuneCountInString` (`n` ticks), `start` skips and `stop - start`
    measurements after clamping; the result is a substring (no allocation) -/
def sliceStringCost (n start stop : Int) : Nat :=
  n.toNat + (match clamp1 n start stop with
    | none => 0
    | some (a, b) => a.toNat + (b - a).toNat)

/-- `sliceStep` on an array: `make([]any, cnt)` and `cnt` iterations of the copy loop -/
def sliceStepArrayTicks (n start stop step : Int) : Nat :=
  match clampStep n start stop step with
  | none => 0
  | some (_, cnt) => cnt.toNat
def sliceStepArrayCells (n start stop step : Int) : Nat := sliceStepArrayTicks n start stop step
def sliceStepArrayCost (n start stop step : Int) : Nat :=
  sliceStepArrayTicks n start stop step + sliceStepArrayCells n start stop step

/-- decode steps of the selecting loop on a string with `rem` code points left, `cnt` code points to select:
    one decode per selected code point plus `min (step - 1) remaining` skips -/
def walkCost (step : Nat) : Nat → Nat → Nat
  | 0, _ => 0
  | c + 1, rem =>
    1 + min (step - 1) (rem - 1) + walkCost step c (rem - 1 - min (step - 1) (rem - 1))

/-- skips needed to reach the first selected code point: `start` from the front for a positive step,
    `n - 1 - start` from the back for a negative one -/
def leadSkips (n a step : Int) : Nat := if step > 0 then a.toNat else (n - 1 - a).toNat

/-- decode steps of `sliceStep` on a string of `n` code points (without the initial `RuneCountInString`) -/
def sliceStepStringDecodes (n start stop step : Int) : Nat :=
  match clampStep n start stop step with
  | none => 0
  | some (a, cnt) =>
    leadSkips n a step + walkCost step.natAbs cnt.toNat (n.toNat - leadSkips n a step)

/-- code points written to the `strings.Builder` (`b.Grow(cnt)` reserves `cnt` bytes up front) -/
def sliceStepStringCells (n start stop step : Int) : Nat := sliceStepArrayTicks n start stop step

/-- all of `sliceStep` on a string: counting pass, decode steps, cells -/
def sliceStepStringCost (n start stop step : Int) : Nat :=
  n.toNat + sliceStepStringDecodes n start stop step + sliceStepStringCells n start stop step

/-- iterations of one offset conversion loop for a string of `len` bytes and `n` code points:
    none for a negative or too large (`> len`) argument, else `min i (n + 1)` -/
def offsetTicks (len n : Nat) (i : Int) : Nat :=
  if i < 0 then 0 else if i > len then 0 else min i.toNat (n + 1)

/-- `find_first`/`find_last` with offsets, on a string of `len` bytes and `n` code points: the two conversion loops,
    the substring search over a window of at most `len` bytes counted as one tick per candidate offset (`len + 1`
    offsets; each candidate costs at most `|sub|` byte comparisons in the naive search the model uses, Go's
    `strings.Index` is `O(len + |sub|)`), and the final `RuneCountInString(s[:r+i])` (`≤ len` ticks) -/
def findCost (len n : Nat) (i j : Int) : Nat :=
  offsetTicks len n i + offsetTicks len n j + (len + 1) + len

/-- `split`/`splitCount` with `occ` separators present (`occ = strings.Count(s, sep)`, or `runeCount s - 1` for the
    empty separator): `make([]any, min count occ + 1)` and as many loop iterations -/
def splitCells (occ : Nat) (count : Int) : Nat := min count.toNat occ + 1
def splitCost (occ : Nat) (count : Int) : Nat := 2 * splitCells occ count

/-- `replaceCount`: `min count occ` replacements, a result of `|s| + replacements · (|new| - |old|)` bytes -/
def replaceCost (occ : Nat) (count : Int) : Nat := min count.toNat occ + 1

/-- `pad_left`/`pad_right` on a string of `n` code points: `max 0 (w - n)` iterations of `b.WriteString(p)`.
    This is the one operation whose integer argument IS the size of the result (`max w n` code points). -/
def padCost (n : Nat) (w : Int) : Nat := (w - n).toNat

/-- `index`: one sign test, one addition, two comparisons, one element access -/
def indexCost (_n _i : Int) : Nat := 1

end Jmes.Cost
