/-
  Specification of slicing, written the way Python defines it (CPython `PySlice_Unpack` + `PySlice_AdjustIndices`
  = `slice.indices`, and `PySlice_AdjustIndices`'s slice length).  Independent of the model: no import of `Jmes.Model`.

  `n` is the sequence length, `start`/`stop` are optional (absent = `none`), `step ≠ 0`.
-/
namespace Jmes.Spec

/-- Python's treatment of one explicit bound: a negative value counts from the end, then the value is clamped to
    `[lo, hi]` (`[0, n]` for a positive step, `[-1, n-1]` for a negative step). -/
def pyAdjust (n lo hi v : Int) : Int :=
  let v := if v < 0 then v + n else v
  if v < lo then lo else if v > hi then hi else v

/-- `slice(start, stop, step).indices(n)` -/
def pyIndices (n : Int) (start stop : Option Int) (step : Int) : Int × Int × Int :=
  if step > 0 then
    ((match start with | none => 0 | some v => pyAdjust n 0 n v),
     (match stop with | none => n | some v => pyAdjust n 0 n v),
     step)
  else
    ((match start with | none => n - 1 | some v => pyAdjust n (-1) (n - 1) v),
     (match stop with | none => -1 | some v => pyAdjust n (-1) (n - 1) v),
     step)

/-- number of indices visited by `range(start, stop, step)` (CPython's slice length) -/
def pyCount (start stop step : Int) : Int :=
  if step > 0 then (if start < stop then (stop - start - 1) / step + 1 else 0)
  else if step < 0 then (if stop < start then (start - stop - 1) / (-step) + 1 else 0)
  else 0

/-- the indices `range(*slice(start, stop, step).indices(n))` visits, in order -/
def pyWalk (n : Int) (start stop : Option Int) (step : Int) : List Int :=
  let (a, b, s) := pyIndices n start stop step
  (List.range (pyCount a b s).toNat).map (fun (k : Nat) => a + (k : Int) * s)

/-- The same walk as the `while` loop it abbreviates (`i = start; while i < stop: yield i; i += step`, resp. `>`),
    with fuel. `pyWalk_eq_loop` in `Jmes/Properties/C12.lean` proves the two agree. -/
def pyLoop (stop step : Int) : Nat → Int → List Int
  | 0, _ => []
  | fuel + 1, i =>
    if (step > 0 ∧ i < stop) ∨ (step < 0 ∧ i > stop) then i :: pyLoop stop step fuel (i + step) else []

end Jmes.Spec
