-- This module serves as the root of the `Jmes` library.
-- Import modules here that should be built as part of the library.
import Jmes.Basic
