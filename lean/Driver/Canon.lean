/-
  Canonical text for values and outcomes, and the tagged-JSON input format of the correspondence protocol.
  (Appendix C of DESIGN.md.)
-/
import Jmes.Model.Api
namespace Jmes.Driver
open Jmes

def hexDigitC (n : Nat) : Char := if n < 10 then Char.ofNat (48 + n) else Char.ofNat (87 + n)

def hexOf (b : Bytes) : String :=
  String.ofList (b.flatMap (fun x => [hexDigitC (x / 16), hexDigitC (x % 16)]))

def unhexNibble (c : Char) : Option Nat :=
  if '0' ≤ c ∧ c ≤ '9' then some (c.toNat - 48)
  else if 'a' ≤ c ∧ c ≤ 'f' then some (c.toNat - 87)
  else if 'A' ≤ c ∧ c ≤ 'F' then some (c.toNat - 55)
  else none

def unhexAux : List Char → Option Bytes
  | [] => some []
  | a :: b :: rest => match unhexNibble a, unhexNibble b, unhexAux rest with
    | some x, some y, some r => some ((x * 16 + y) :: r)
    | _, _, _ => none
  | _ => none

def unhex (s : String) : Option Bytes := unhexAux s.toList

def bytesToString (b : Bytes) : String := String.ofList (b.map Char.ofNat)

def strBytes (s : String) : Bytes := s.toUTF8.toList.map UInt8.toNat

def decCanon : Dec → String
  | .nan => "nan"
  | .inf n => if n then "-inf" else "+inf"
  | d => match d.normalize with
    | .fin n c e => (if n then "-" else "") ++ toString c ++ (if c = 0 then "" else "e" ++ toString e)
    | _ => "?"

def f64Canon : F64 → String
  | .nan => "nan"
  | .inf n => if n then "-inf" else "+inf"
  | .fin n m e => (if n then "-" else "") ++ toString m ++ "p" ++ toString e

def kindName : IntKind → String
  | .i8 => "i8" | .i16 => "i16" | .i32 => "i32" | .i64 => "i64" | .int => "int"
  | .u8 => "u8" | .u16 => "u16" | .u32 => "u32" | .u64 => "u64" | .uint => "uint"

def kindOfName : String → Option IntKind
  | "i8" => some .i8 | "i16" => some .i16 | "i32" => some .i32 | "i64" => some .i64 | "int" => some .int
  | "u8" => some .u8 | "u16" => some .u16 | "u32" => some .u32 | "u64" => some .u64 | "uint" => some .uint
  | _ => none

def joinWith (sep : String) : List String → String
  | [] => ""
  | [x] => x
  | x :: rest => x ++ sep ++ joinWith sep rest

mutual
partial def canon : Val → String
  | .null => "null"
  | .bool true => "true"
  | .bool false => "false"
  | .str s => "s" ++ hexOf s
  | .num (.jnum t) => "nj:" ++ hexOf t
  | .num (.dec d) => "nd:" ++ decCanon d
  | .num (.int k v) => "n" ++ kindName k ++ ":" ++ toString v
  | .num (.f64 f) => "nf64:" ++ f64Canon f
  | .num (.f32 f) => "nf32:" ++ f64Canon f
  | .arr .plain xs => "[" ++ joinWith "," (xs.map canon) ++ "]"
  | .arr .nil _ => "nil[]"
  | .arr .enum xs => "E[" ++ joinWith "," (xs.map canon) ++ "]"
  | .obj kvs => "{" ++ joinWith "," (kvs.map (fun kv => "s" ++ hexOf kv.1 ++ ":" ++ canon kv.2)) ++ "}"
  | .foreign t => "foreign:" ++ toString t
end

def catName : Cat → String
  | .syntax => "syntax" | .arity => "arity" | .unknownFunction => "unknown-function"
  | .invalidType => "invalid-type" | .invalidValue => "invalid-value" | .notANumber => "not-a-number"
  | .undefinedVariable => "undefined-variable" | .evaluationFailed => "evaluation-failed"

def outcome : Res Val → String
  | .ok v => "ok " ++ canon v
  | .err cs => "err " ++ joinWith "+" ((cs.map catName).toArray.qsort (· < ·)).toList
  | .panic w => "panic " ++ w
  | .nondet => "nondet"
  | .unmodelled w => "unmodelled " ++ w

/-- parse `[-]<m>p<e>`, `nan`, `+inf`, `-inf` -/
def parseF64 (s : String) : Option F64 :=
  if s == "nan" then some .nan
  else if s == "+inf" then some (.inf false)
  else if s == "-inf" then some (.inf true)
  else
    let (neg, body) : Bool × String := if s.startsWith "-" then (true, (s.drop 1).toString) else (false, s)
    match body.splitOn "p" with
    | [m, e] => match m.toNat?, e.toInt? with
      | some m, some e => some (if m = 0 then .fin neg 0 0 else F64.mk neg m e)
      | _, _ => none
    | _ => none

def getStr (kvs : List (Bytes × Val)) (k : String) : Option String :=
  match objLookup (strBytes k) kvs with
  | some (.str b) => some (bytesToString b)
  | _ => none

mutual
/-- turn `{"#": tag, …}` objects into the Go values they name -/
partial def untag : Val → Option Val
  | .arr t xs => (untagL xs).map (Val.arr t)
  | .obj kvs =>
    match getStr kvs "#" with
    | none => (untagF kvs).map Val.obj
    | some tag =>
      if tag == "f64" then (getStr kvs "v").bind parseF64 |>.map (fun f => .num (.f64 f))
      else if tag == "f32" then (getStr kvs "v").bind parseF64 |>.map (fun f => .num (.f32 f))
      else if tag == "dec" then
        (getStr kvs "v").bind (fun s => match Dec.parse (strBytes s) with
          | .ok d => some (.num (.dec d))
          | .range d => some (.num (.dec d))
          | .syntax => none)
      else if tag == "jnum" then (getStr kvs "x").bind unhex |>.map (fun b => .num (.jnum b))
      else if tag == "bytes" then (getStr kvs "x").bind unhex |>.map Val.str
      else if tag == "foreign" then
        (match objLookup (strBytes "t") kvs with
         | some (.num (.jnum t)) => (bytesToString t).toNat?.map Val.foreign
         | _ => none)
      else if tag == "nilslice" then some (.arr .nil [])
      else if tag == "cap" then
        (match objLookup (strBytes "v") kvs with
         | some (.arr _ xs) => (untagL xs).map (Val.arr .plain)
         | _ => none)
      else match kindOfName tag with
        | some k => (getStr kvs "v").bind String.toInt? |>.map (fun i => .num (.int k i))
        | none => none
  | v => some v
partial def untagL : List Val → Option (List Val)
  | [] => some []
  | x :: xs => match untag x, untagL xs with
    | some a, some b => some (a :: b)
    | _, _ => none
partial def untagF : List (Bytes × Val) → Option (List (Bytes × Val))
  | [] => some []
  | (k, x) :: xs => match untag x, untagF xs with
    | some a, some b => some ((k, a) :: b)
    | _, _ => none
end

def parseData (s : String) : Option Val :=
  (Json.decode (strBytes s)).bind untag

end Jmes.Driver
