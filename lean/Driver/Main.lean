import Driver.Canon
open Jmes Jmes.Driver

/-- one request line: `id \t kind \t exprhex \t data` -/
def handle (line : String) : String :=
  match line.splitOn "\t" with
  | [id, kind, ehex, data] =>
    match unhex ehex with
    | none => id ++ "\tbad-op expr"
    | some e =>
      -- the list-based model is quadratic in places: very long expressions are left to the implementation-only checks
      if e.length > 20000 then id ++ "\tunmodelled expression longer than 20000 bytes"
      else if kind == "C" then
        match compile e with
        | .ok _ => id ++ "\tok"
        | .error .fuel => id ++ "\tunmodelled parser fuel"
        | .error pe => id ++ "\terr " ++ catName (parseCat pe)
      else if kind == "S" then
        match parseData data with
        | none => id ++ "\tbad-op data"
        | some d => id ++ "\t" ++ outcome (search e d)
      else id ++ "\tbad-op kind"
  | _ => "?\tbad-op line"

partial def loop (hin hout : IO.FS.Stream) : IO Unit := do
  let line ← hin.getLine
  if line.isEmpty then return ()
  let line := if line.endsWith "\n" then (line.dropEnd 1).toString else line
  hout.putStrLn (handle line)
  loop hin hout

def main : IO Unit := do
  let hin ← IO.getStdin
  let hout ← IO.getStdout
  loop hin hout
